"""Independent reference semantics of the Histogrammar specification, in exact rationals.

evaluate(spec, stream) -> Result(tree, exact, notes)

`stream` is a list of (row, weight).  `tree` has the shape produced by norm.norm() (names stripped, zero-weight
sparse bins absent by construction) with numbers as fractions.Fraction / float (NaN, +-inf).  `exact` is True
when every accumulated quantity in the tree (entries, sums, bag weights) and every one of its partial sums in any
order is exactly representable in binary64, so that the library - whatever order it adds in - must reproduce the
model bit for bit.  Means and variances are never claimed exact.

Bin membership near non-representable edges (DESIGN 4.2): the specification is over reals; the documented code
computes e.g. floor(num*(x-low)/(high-low)) in doubles.  The model computes the exact real-valued index t*; if the
double evaluation of the documented expression is exact at every step the bin must be floor(t*).  Otherwise the
accepted set is {floor(t*)} plus the adjacent bin iff t* lies within 8*eps*max(1,|t*|) of their common boundary,
always intersected with the valid index range; within the accepted set the model follows the documented double
expression (evaluated by the harness itself, not by the library).
"""

import math
from fractions import Fraction

from .spec import eval_q

EPS = 2.0**-52
LONG_MINUSINF = -9223372036854775807
LONG_PLUSINF = 9223372036854775807
NAN = float("nan")
INF = float("inf")


class Result:
    def __init__(self, tree, exact, notes):
        self.tree = tree
        self.exact = exact
        self.notes = notes


class _Ctx:
    def __init__(self):
        self.exact = True
        self.notes = {"ambiguous": 0, "edge_hits": 0, "nonfinite": 0, "routed_leaves": set(), "maxabs": 0.0}

    def acc(self, terms):
        """Record whether a signed sum of Fractions (and all its sub-sums) is exactly representable."""
        if not terms:
            return
        den = 1
        tot = Fraction(0)
        for t in terms:
            d = t.denominator
            if d & (d - 1):
                self.exact = False
                return
            den = max(den, d)
            tot += abs(t)
        self.notes["maxden"] = max(self.notes.get("maxden", 1), den)
        if tot * den >= 2**53 or den > 2**900:
            # (a granularity finer than 2**-900 is in or near the subnormal range, where products round)
            self.exact = False

    def seen(self, q):
        if isinstance(q, float) and math.isfinite(q):
            self.notes["maxabs"] = max(self.notes["maxabs"], abs(q))


def F(x):
    if isinstance(x, bool):
        return Fraction(int(x))
    return Fraction(x)


def _isnan(q):
    return isinstance(q, float) and math.isnan(q)


def _isinf(q):
    return isinstance(q, float) and math.isinf(q)


def gate(stream):
    """The weight gate: only weight > 0 (not NaN) reaches any node."""
    out = []
    for row, w in stream:
        if isinstance(w, float) and math.isnan(w):
            continue
        if w > 0:
            out.append((row, F(w)))
    return out


def evaluate(spec, stream):
    ctx = _Ctx()
    tree = _node(spec, gate(stream), ctx, ())
    ctx.notes["routed_leaves"] = len(ctx.notes["routed_leaves"])
    return Result(tree, ctx.exact, ctx.notes)


def _entries(items, ctx):
    ws = [w for _, w in items]
    ctx.acc(ws)
    return sum(ws, Fraction(0))


def _moments(qs_ws):
    """mean (Fraction|float) following the non-finite rules; returns (mean, allfinite)."""
    anynan = any(_isnan(q) for q, _ in qs_ws)
    pos = any(_isinf(q) and q > 0 for q, _ in qs_ws)
    neg = any(_isinf(q) and q < 0 for q, _ in qs_ws)
    if anynan or (pos and neg):
        return NAN, False
    if pos:
        return INF, False
    if neg:
        return -INF, False
    tot = sum((w for _, w in qs_ws), Fraction(0))
    if tot == 0:
        return NAN, True
    return sum((F(q) * w for q, w in qs_ws), Fraction(0)) / tot, True


def _node(spec, items, ctx, path):  # noqa: PLR0911, PLR0912, PLR0915
    k = spec["k"]
    if items and k in ("Count", "Sum", "Average", "Deviate", "Minimize", "Maximize", "Bag"):
        ctx.notes["routed_leaves"].add(path)

    if k == "Count":
        tr = spec.get("transform")
        if tr == "sq":
            ws = [w * w for _, w in items]
        elif tr == "half":
            ws = [w / 2 for _, w in items]
        else:
            ws = [w for _, w in items]
        ctx.acc(ws)
        return {"T": k, "entries": sum(ws, Fraction(0))}

    if k in ("Sum", "Average", "Deviate", "Minimize", "Maximize"):
        entries = _entries(items, ctx)
        qw = [(eval_q(spec["q"], row), w) for row, w in items]
        for q, _ in qw:
            ctx.seen(q)
            if _isnan(q) or _isinf(q):
                ctx.notes["nonfinite"] += 1
        if k == "Sum":
            m, fin = _moments(qw)
            # exactness is judged on the finite terms even when a NaN / inf makes the total non-finite: partial
            # results that do not contain the non-finite row are compared too
            terms = [F(q) * w for q, w in qw if not (_isnan(q) or _isinf(q))]
            ctx.acc(terms)
            s = m if not fin else sum(terms, Fraction(0))
            return {"T": k, "entries": entries, "sum": s}
        if k == "Average":
            m, _ = _moments(qw)
            return {"T": k, "entries": entries, "mean": m}
        if k == "Deviate":
            m, fin = _moments(qw)
            if not qw:
                var = NAN
            elif not fin:
                var = NAN
            else:
                var = sum((w * (F(q) - m) ** 2 for q, w in qw), Fraction(0)) / entries
            return {"T": k, "entries": entries, "mean": m, "variance": var}
        real = [q for q, _ in qw if not _isnan(q)]
        if k == "Minimize":
            return {"T": k, "entries": entries, "min": (min(real) if real else NAN)}
        return {"T": k, "entries": entries, "max": (max(real) if real else NAN)}

    if k == "Bag":
        from .norm import bagkey  # noqa: PLC0415

        entries = _entries(items, ctx)
        vals = {}
        for row, w in items:
            q = eval_q(spec["q"], row)
            if spec["range"] == "N":
                q = float(q)
            key = bagkey(list(q) if isinstance(q, tuple) else q)
            vals.setdefault(key, []).append(w)
        for ws in vals.values():
            ctx.acc(ws)
        return {"T": k, "entries": entries, "range": spec["range"], "values": {kk: sum(ws, Fraction(0)) for kk, ws in vals.items()}}

    if k == "Bin":
        entries = _entries(items, ctx)
        num, low, high = spec["num"], float(spec["low"]), float(spec["high"])
        groups = {"under": [], "over": [], "nan": []}
        bins = [[] for _ in range(num)]
        for row, w in items:
            q = eval_q(spec["q"], row)
            ctx.seen(q)
            if _isnan(q):
                groups["nan"].append((row, w))
                ctx.notes["nonfinite"] += 1
            elif q < low:
                groups["under"].append((row, w))
                if _isinf(q):
                    ctx.notes["nonfinite"] += 1
            elif q >= high:
                groups["over"].append((row, w))
                if _isinf(q):
                    ctx.notes["nonfinite"] += 1
            else:
                bins[bin_index(num, low, high, float(q), ctx)].append((row, w))
        return {
            "T": k,
            "low": low,
            "high": high,
            "entries": entries,
            "values": [_node(spec["value"], b, ctx, path + ("value", i)) for i, b in enumerate(bins)],
            "underflow": _node(spec["underflow"], groups["under"], ctx, path + ("underflow",)),
            "overflow": _node(spec["overflow"], groups["over"], ctx, path + ("overflow",)),
            "nanflow": _node(spec["nanflow"], groups["nan"], ctx, path + ("nanflow",)),
        }

    if k == "SparselyBin":
        entries = _entries(items, ctx)
        bw, origin = float(spec["binWidth"]), float(spec["origin"])
        nan, bins = [], {}
        for row, w in items:
            q = eval_q(spec["q"], row)
            ctx.seen(q)
            if _isnan(q):
                nan.append((row, w))
                ctx.notes["nonfinite"] += 1
            else:
                bins.setdefault(sparse_index(bw, origin, float(q), ctx), []).append((row, w))
        return {
            "T": k,
            "binWidth": bw,
            "origin": origin,
            "entries": entries,
            "bins:type": spec["value"]["k"],
            "bins": {str(i): _node(spec["value"], b, ctx, path + ("value", i)) for i, b in bins.items()},
            "nanflow": _node(spec["nanflow"], nan, ctx, path + ("nanflow",)),
        }

    if k == "CentrallyBin":
        entries = _entries(items, ctx)
        centers = sorted(float(c) for c in spec["centers"])
        nan = []
        bins = [[] for _ in centers]
        for row, w in items:
            q = eval_q(spec["q"], row)
            ctx.seen(q)
            if _isnan(q):
                nan.append((row, w))
                ctx.notes["nonfinite"] += 1
            else:
                bins[central_index(centers, float(q), ctx)].append((row, w))
        return {
            "T": k,
            "entries": entries,
            "bins": [
                {"T": "@center", "center": c, "data": _node(spec["value"], b, ctx, path + ("value", i))}
                for i, (c, b) in enumerate(zip(centers, bins))
            ],
            "nanflow": _node(spec["nanflow"], nan, ctx, path + ("nanflow",)),
        }

    if k in ("IrregularlyBin", "Stack"):
        entries = _entries(items, ctx)
        ths = [-INF] + [float(t) for t in spec["edges" if k == "IrregularlyBin" else "thresholds"]]
        nan = []
        bins = [[] for _ in ths]
        for row, w in items:
            q = eval_q(spec["q"], row)
            ctx.seen(q)
            if _isnan(q):
                nan.append((row, w))
                ctx.notes["nonfinite"] += 1
                continue
            if _isinf(q):
                ctx.notes["nonfinite"] += 1
            if any(q == t for t in ths[1:]):
                ctx.notes["edge_hits"] += 1
            if k == "Stack":
                for i, t in enumerate(ths):
                    if q >= t:
                        bins[i].append((row, w))
            else:
                for i, t in enumerate(ths):
                    hi = ths[i + 1] if i + 1 < len(ths) else None
                    if q >= t and (hi is None or q < hi):
                        bins[i].append((row, w))
                        break
        return {
            "T": k,
            "entries": entries,
            "bins": [
                {"T": "@atleast", "atleast": t, "data": _node(spec["value"], b, ctx, path + ("value", i))}
                for i, (t, b) in enumerate(zip(ths, bins))
            ],
            "nanflow": _node(spec["nanflow"], nan, ctx, path + ("nanflow",)),
        }

    if k in ("Fraction", "Select"):
        entries = _entries(items, ctx)
        passed = []
        for row, w in items:
            s = eval_q(spec["q"], row)
            if _isnan(s):
                ctx.notes["nonfinite"] += 1
                continue
            if _isinf(s):
                raise ValueError("infinite selection weights are outside the generated domain")
            sw = F(s) * w
            if not _exact_op(sw):
                ctx.exact = False  # the library's float product selection*weight rounds (e.g. 0.1 * 3.0)
            if sw > 0:
                passed.append((row, sw))
        if k == "Select":
            return {"T": k, "entries": entries, "data": _node(spec["cut"], passed, ctx, path + ("cut",))}
        return {
            "T": k,
            "entries": entries,
            "numerator": _node(spec["value"], passed, ctx, path + ("num",)),
            "denominator": _node(spec["value"], items, ctx, path + ("den",)),
        }

    if k == "Categorize":
        entries = _entries(items, ctx)
        bins = {}
        for row, w in items:
            q = eval_q(spec["q"], row)
            if q is None or _isnan(q):
                q = "NaN"
                ctx.notes["nonfinite"] += 1
            bins.setdefault(str(q), []).append((row, w))
        return {
            "T": k,
            "entries": entries,
            "bins:type": spec["value"]["k"],
            "bins": {kk: _node(spec["value"], b, ctx, path + ("value", kk)) for kk, b in bins.items()},
        }

    if k in ("Label", "UntypedLabel"):
        entries = _entries(items, ctx)
        out = {"T": k, "entries": entries, "data": {kk: _node(s, items, ctx, path + ("pairs", kk)) for kk, s in spec["pairs"].items()}}
        if k == "Label":
            out["sub:type"] = next(iter(spec["pairs"].values()))["k"]
        return out

    if k in ("Index", "Branch"):
        entries = _entries(items, ctx)
        out = {"T": k, "entries": entries, "data": [_node(s, items, ctx, path + ("values", i)) for i, s in enumerate(spec["values"])]}
        if k == "Index":
            out["sub:type"] = spec["values"][0]["k"]
        return out

    raise ValueError(k)


# ---------------------------------------------------------------------------------------------------------
# bin membership with the floating-point ambiguity zone


def _exact_op(fr):
    """True iff the rational fr is exactly representable as a binary64."""
    try:
        return Fraction(float(fr)) == fr
    except OverflowError:
        return False


def bin_accepted(num, low, high, x):
    """(exact index, accepted set, index by the documented double expression) for low <= x < high."""
    fx, fl, fh = Fraction(x), Fraction(low), Fraction(high)
    t = num * (fx - fl) / (fh - fl)
    e = math.floor(t)
    doc = math.floor(num * (x - low) / (high - low))
    steps_exact = _exact_op(fx - fl) and _exact_op(num * (fx - fl)) and _exact_op(fh - fl) and _exact_op(t)
    acc = {e}
    if not steps_exact:
        tol = 8 * EPS * max(1, abs(t))
        if t - e <= tol:
            acc.add(e - 1)
        if (e + 1) - t <= tol:
            acc.add(e + 1)
    acc = {i for i in acc if 0 <= i < num}
    return e, acc, doc


def bin_index(num, low, high, x, ctx=None):
    e, acc, doc = bin_accepted(num, low, high, x)
    if ctx is not None:
        if len(acc) > 1:
            ctx.notes["ambiguous"] += 1
        fx, fl, fh = Fraction(x), Fraction(low), Fraction(high)
        t = num * (fx - fl) / (fh - fl)
        if abs(t - round(t)) <= 8 * EPS * max(1, abs(t)):
            ctx.notes["edge_hits"] += 1
    return doc if doc in acc else e


def sparse_accepted(bw, origin, x):
    if math.isinf(x):
        v = LONG_PLUSINF if x > 0 else LONG_MINUSINF
        return v, {v}, v
    fx, fo, fb = Fraction(x), Fraction(origin), Fraction(bw)
    t = (fx - fo) / fb
    e = math.floor(t)
    soft = (x - origin) / bw
    if soft <= LONG_MINUSINF:
        doc = LONG_MINUSINF
    elif soft >= LONG_PLUSINF:
        doc = LONG_PLUSINF
    else:
        doc = math.floor(soft)
    e = max(LONG_MINUSINF, min(LONG_PLUSINF, e))
    acc = {e}
    if not (_exact_op(fx - fo) and _exact_op(t)):
        tol = 8 * EPS * max(1, abs(t))
        if t - math.floor(t) <= tol:
            acc.add(e - 1)
        if (math.floor(t) + 1) - t <= tol:
            acc.add(e + 1)
        if abs(t) >= 2**52:
            acc.add(doc)
    return e, acc, doc


def sparse_index(bw, origin, x, ctx=None):
    e, acc, doc = sparse_accepted(bw, origin, x)
    if ctx is not None and not math.isinf(x):
        if len(acc) > 1:
            ctx.notes["ambiguous"] += 1
        t = (Fraction(x) - Fraction(origin)) / Fraction(bw)
        if abs(t - round(t)) <= 8 * EPS * max(1, abs(t)):
            ctx.notes["edge_hits"] += 1
    return doc if doc in acc else e


def central_accepted(centers, x):
    """Nearest centre, ties to the upper bin: first i with x < (c_i + c_{i+1})/2, else the last."""
    n = len(centers)
    e = n - 1
    doc = n - 1
    amb = set()
    if math.isinf(x):
        i = 0 if x < 0 else n - 1
        return i, {i}, i
    fx = Fraction(x)
    for i in range(n - 1):
        m = (Fraction(centers[i]) + Fraction(centers[i + 1])) / 2
        if fx < m:
            e = i
            break
    for i in range(n - 1):
        if x < (centers[i] + centers[i + 1]) / 2.0:
            doc = i
            break
    acc = {e}
    for i in range(n - 1):
        m = (Fraction(centers[i]) + Fraction(centers[i + 1])) / 2
        mf = (centers[i] + centers[i + 1]) / 2.0
        if math.isinf(mf):
            continue
        lo, hi = sorted((m, Fraction(mf)))
        if lo != hi and lo <= fx <= hi:
            amb.update((i, i + 1))
    if e in amb:
        acc |= amb
    return e, acc, doc


def central_index(centers, x, ctx=None):
    e, acc, doc = central_accepted(centers, x)
    if ctx is not None:
        if len(acc) > 1:
            ctx.notes["ambiguous"] += 1
        if not math.isinf(x) and any(Fraction(x) * 2 == Fraction(centers[i]) + Fraction(centers[i + 1]) for i in range(len(centers) - 1)):
            ctx.notes["edge_hits"] += 1
    return doc if doc in acc else e
