"""Tree walkers over live aggregators: sub-aggregator enumeration and identity (aliasing) snapshots."""

from .common import lib

# documented template slots: an unfilled prototype that is never filled itself and may be shared
TEMPLATE_SLOTS = {"SparselyBin": ("value",), "Categorize": ("value",), "CentrallyBin": ("value",)}
SKIP_ATTRS = ("fill", "plot", "quantity", "transform")


def _container():
    return lib().Container


def walk(h, path=(), seen=None, templates=False):
    """Yield (path, aggregator) for every fillable sub-aggregator reachable from h (each object once)."""
    C = _container()
    if seen is None:
        seen = set()
    if id(h) in seen:
        return
    seen.add(id(h))
    yield path, h
    skip = () if templates else TEMPLATE_SLOTS.get(h.name, ())
    for name, v in list(vars(h).items()):
        if name in SKIP_ATTRS or name in skip:
            continue
        if h.name == "Branch" and name.startswith("i") and name[1:].isdigit():
            continue  # aliases of values[i] set by Branch.__init__
        yield from _walk_value(v, path + (name,), seen, templates, C)


def _walk_value(v, path, seen, templates, C):
    if isinstance(v, C):
        yield from walk(v, path, seen, templates)
    elif isinstance(v, dict):
        for k, x in v.items():
            yield from _walk_value(x, path + (k,), seen, templates, C)
    elif isinstance(v, (list, tuple)):
        for i, x in enumerate(v):
            yield from _walk_value(x, path + (i,), seen, templates, C)


def identity_set(h):
    """ids of all fillable sub-aggregators and of their mutable content containers reachable from h."""
    out = set()
    for _, node in walk(h):
        out.add(id(node))
        for name in ("bins", "values", "pairs"):
            v = vars(node).get(name)
            if isinstance(v, (dict, list)):
                out.add(id(v))
    return out


def shared(a, b):
    """Human-readable description of fillable nodes / containers shared between two aggregators."""
    ia = {}
    for p, n in walk(a):
        ia[id(n)] = p
        for name, v in vars(n).items():
            if isinstance(v, (dict, list)) and name in ("bins", "values", "pairs"):
                ia[id(v)] = p + (name,)
    out = []
    for p, n in walk(b):
        if id(n) in ia:
            out.append(f"{'/'.join(map(str, ia[id(n)])) or '<root>'} is {'/'.join(map(str, p)) or '<root>'} ({n.name})")
        for name, v in vars(n).items():
            if isinstance(v, (dict, list)) and name in ("bins", "values", "pairs") and id(v) in ia:
                out.append(f"container {'/'.join(map(str, ia[id(v)]))} is {'/'.join(map(str, p + (name,)))}")
    return out


def keysets(t, path=()):
    """path -> frozenset of keys for every free-keyed map of a typed tree (norm.norm output)."""
    out = {}
    if isinstance(t, dict):
        T = t.get("T")
        for k, v in t.items():
            if isinstance(v, dict) and ((T in ("SparselyBin", "Categorize") and k == "bins") or (T == "Bag" and k == "values")):
                out[path + (k,)] = frozenset(v)
            if isinstance(v, (dict, list)):
                out.update(keysets(v, path + (k,)))
    elif isinstance(t, list):
        for i, v in enumerate(t):
            out.update(keysets(v, path + (i,)))
    return out


def instances(obj, spec, path, templates=False):
    """Live sub-aggregators that instantiate the spec node at `path` (a template slot of a sparse container is
    instantiated once per existing bin, possibly never).  With templates=True the value template of a live sparse
    container counts as well (it is what a bin taken over from another operand is checked against)."""
    cur = [(obj, spec)]
    i = 0
    path = list(path)
    while i < len(path):
        slot = path[i]
        nxt = []
        for o, s in cur:
            k = s["k"]
            if k in ("Label", "UntypedLabel"):
                key = path[i + 1]
                if key in o.pairs:
                    nxt.append((o.pairs[key], s["pairs"][key]))
            elif k in ("Index", "Branch"):
                j = path[i + 1]
                if j < len(o.values):
                    nxt.append((o.values[j], s["values"][j]))
            elif slot in ("underflow", "overflow", "nanflow", "cut"):
                nxt.append((getattr(o, slot), s[slot]))
            elif slot == "value":
                if k == "Bin":
                    nxt += [(v, s["value"]) for v in o.values]
                elif k in ("SparselyBin", "Categorize"):
                    nxt += [(v, s["value"]) for v in o.bins.values()]
                    if templates and getattr(o, "value", None) is not None:
                        nxt.append((o.value, s["value"]))
                elif k in ("CentrallyBin", "IrregularlyBin", "Stack"):
                    nxt += [(v, s["value"]) for _, v in o.bins]
                elif k == "Fraction":
                    nxt += [(o.numerator, s["value"]), (o.denominator, s["value"])]
        i += 2 if cur and cur[0][1]["k"] in ("Label", "UntypedLabel", "Index", "Branch") else 1
        cur = nxt
        if not cur:
            return []
    return [o for o, _ in cur]


def view_problems(h):
    """Redundant views of the children that a collection keeps besides `values` / `pairs` (Branch.i0..i9, the
    call / get accessors): every one must be the very object that fill and toJson use."""
    out = []
    for p, n in walk(h):
        where = "/".join(map(str, p)) or "<root>"
        if n.name == "Branch":
            for i, v in enumerate(n.values):
                if getattr(n, f"i{i}", None) is not v:
                    out.append(f"{where}: Branch.i{i} is not values[{i}] (i{i} holds entries {getattr(getattr(n, f'i{i}', None), 'entries', None)!r}, values[{i}] holds {v.entries!r})")
                if n.get(i) is not v or n(i) is not v:
                    out.append(f"{where}: Branch get({i}) / ({i}) is not values[{i}]")
        elif n.name == "Index":
            for i, v in enumerate(n.values):
                if n.get(i) is not v or n(i) is not v:
                    out.append(f"{where}: Index get({i}) / ({i}) is not values[{i}]")
        elif n.name in ("Label", "UntypedLabel"):
            for k, v in n.pairs.items():
                if n.get(k) is not v or n(k) is not v:
                    out.append(f"{where}: {n.name} get({k!r}) / ({k!r}) is not pairs[{k!r}]")
            if list(n.keys) != list(n.pairs) or any(a is not b for a, b in zip(n.values, n.pairs.values())):
                out.append(f"{where}: {n.name}.keys / .values disagree with .pairs")
    return out


def require_views(h, what):
    from .core import Violation  # noqa: PLC0415

    ps = view_problems(h)
    if ps:
        raise Violation("stale-view", f"{what}: {ps[0]}" + (f" (+{len(ps) - 1} more)" if len(ps) > 1 else ""), {"view": ps[0].split(": ")[1].split(" ")[0]})


def attr_state(h):
    """path -> numeric state of every fillable node, read from the live attributes (not from toJson): an observation
    of content that is independent of the serialiser."""
    import math  # noqa: PLC0415

    def num(x):
        try:
            x = float(x)
        except (TypeError, ValueError):
            return repr(x)
        return "nan" if math.isnan(x) else x

    out = {}
    for p, n in walk(h):
        st_ = {"type": n.name, "entries": num(n.entries)}
        for f in ("sum", "mean", "min", "max"):
            if f in vars(n):
                st_[f] = num(getattr(n, f))
        if n.name == "Bag":
            st_["values"] = sorted((repr(k), num(v)) for k, v in n.values.items())
        out["/".join(map(str, p))] = st_
    return out
