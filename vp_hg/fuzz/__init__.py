"""Atheris (libFuzzer) entry points driving the same Hypothesis properties (coverage-guided)."""
