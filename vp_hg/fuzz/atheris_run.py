"""python -m vp_hg.fuzz.atheris_run <Cnn> <out.json> [libFuzzer args...]

Coverage-guided campaign over the *same* property as the Hypothesis check: libFuzzer's bytes are decoded into a case by
`prop.hypothesis.fuzz_one_input` (Hypothesis' structured decoder), so the fuzzer reaches the library's logic instead of
dying in input validation; the oracle (mod.check) runs inside the target.  The library is instrumented with
atheris.instrument_imports(include=["histogrammar"]).  A violation is written to <out.json> and the process exits.
"""

import importlib
import json
import os
import sys


def main():
    pid, out = sys.argv[1], sys.argv[2]
    argv = [sys.argv[0]] + sys.argv[3:]
    import atheris  # noqa: PLC0415

    from ..common import REPO, enc  # noqa: PLC0415

    if REPO not in sys.path[:1]:
        sys.path.insert(0, REPO)
    os.environ["VP_HG_INSTRUMENTED"] = "1"  # instrumented code objects cannot be marshalled: no pickle detours in here
    with atheris.instrument_imports(include=["histogrammar"]):
        import histogrammar  # noqa: F401, PLC0415
    from hypothesis import HealthCheck, given, settings  # noqa: PLC0415

    from ..core import Collector, Violation  # noqa: PLC0415
    from ..run import run_case  # noqa: PLC0415

    mod = importlib.import_module(f"vp_hg.checks.{pid.lower()}")
    col = Collector(0)
    state = {"violation": None}

    def flush():
        d = col.export()
        d["violation"] = state["violation"]
        tmp = out + ".tmp"
        with open(tmp, "w") as f:
            json.dump(d, f)
        os.replace(tmp, out)

    @settings(database=None, deadline=None, suppress_health_check=list(HealthCheck))
    @given(mod.strategy("thorough"))
    def prop(case):
        try:
            info = run_case(mod, case, col)
        except Violation as v:
            state["violation"] = {"case": enc(case), "kind": v.kind, "detail": v.detail, "sig": enc(v.sig)}
            flush()
            raise
        col.record(case, info)
        if col.evaluations % 100 == 0:
            flush()

    atheris.Setup(argv, prop.hypothesis.fuzz_one_input)
    try:
        atheris.Fuzz()
    finally:
        flush()


if __name__ == "__main__":
    main()
