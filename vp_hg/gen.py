"""Hypothesis strategies: tree specs, bin configurations, critical-value alphabets, rows, weights, partitions.

Everything random is a Hypothesis draw (shrinkable, replayable).  Generators are sound first: they only produce
constructions the constructors document (num >= 1, low < high, binWidth > 0, >= 2 distinct centres, strictly
increasing edges / thresholds, Label / Index children of one primitive type and one Bag range, Label keys that are
legal keyword names).
"""

import math

from hypothesis import strategies as st

from .spec import FLAVOURS, walk_spec

NAN = float("nan")
INF = float("inf")

NUMCOLS = ("x", "y", "z")
LEAF_KINDS = ("Count", "Sum", "Average", "Deviate", "Minimize", "Maximize", "Bag")
BIN_KINDS = ("Bin", "SparselyBin", "CentrallyBin", "IrregularlyBin", "Stack")
SEL_KINDS = ("Fraction", "Select")
COLL_KINDS = ("Label", "UntypedLabel", "Index", "Branch")
ALL_KINDS = LEAF_KINDS + BIN_KINDS + SEL_KINDS + ("Categorize",) + COLL_KINDS

LABEL_KEYS = ("a", "b", "c", "k1", "entries", "pairsAsDict", "data")
CAT_VALUES = ("a", "b", "c", "", "NaN", "entries", "contentType", "binsAsDict", "-3", "True")


def ulps(x, k):
    for _ in range(abs(k)):
        x = math.nextafter(x, INF if k > 0 else -INF)
    return x


# ---------------------------------------------------------------------------------------------------------
# configurations


@st.composite
def bin_cfgs(draw, max_bins=12):
    fam = draw(st.sampled_from(("dyadic", "dyadic", "nondyadic", "nondyadic", "offset")))
    if fam == "dyadic":
        num = draw(st.sampled_from([n for n in (1, 2, 4, 8) if n <= max_bins]))
        low = draw(st.sampled_from((0.0, -1.0, -2.5, 0.125, 1.0, -4.0)))
        step = draw(st.sampled_from((0.125, 0.25, 0.5, 1.0, 2.0)))
        return {"num": num, "low": low, "high": low + num * step, "fam": fam}
    if fam == "nondyadic":
        num = draw(st.sampled_from([n for n in (3, 5, 6, 7, 10, 12, 20) if n <= max_bins] or [3]))
        low = draw(st.sampled_from((0.0, -1.0, 0.1, -0.3, 1.0 / 3.0)))
        width = draw(st.sampled_from((1.0, 0.7, 0.3, 2.0, 1.1, 0.1 * num, num / 3.0)))
        return {"num": num, "low": low, "high": low + width, "fam": fam}
    num = draw(st.sampled_from([n for n in (1, 2, 5, 10) if n <= max_bins]))
    low = draw(st.sampled_from((-1e6, 1e6, float(2**40), -float(2**40))))
    width = draw(st.sampled_from((1.0, 10.0, 1e6 + 1.0, 0.5)))
    high = low + width
    if not low < high:
        high = math.nextafter(low, INF)
    return {"num": num, "low": low, "high": high, "fam": fam}


@st.composite
def sparse_cfgs(draw):
    fam = draw(st.sampled_from(("dyadic", "dyadic", "nondyadic", "nondyadic", "offset")))
    if fam == "dyadic":
        return {"binWidth": draw(st.sampled_from((1.0, 0.5, 0.25, 2.0))), "origin": draw(st.sampled_from((0.0, 0.5, -1.0, 0.125))), "fam": fam}
    if fam == "nondyadic":
        return {"binWidth": draw(st.sampled_from((0.1, 0.3, 1.0 / 3.0, 0.7))), "origin": draw(st.sampled_from((0.0, 0.1, -0.3))), "fam": fam}
    return {"binWidth": draw(st.sampled_from((1.0, 0.1, 10.0))), "origin": draw(st.sampled_from((1e6, -1e6, float(2**40)))), "fam": fam}


_CENTER_POOLS = (
    (-2.0, -1.0, -0.5, 0.0, 0.25, 0.5, 1.0, 2.0, 4.0),
    (-0.3, 0.1, 0.2, 0.3, 0.7, 1.0 / 3.0, 1.1, 2.2),
    (1e6, 1e6 + 1.0, 1e6 + 3.0, 1e6 + 0.1, -1e6),
)


@st.composite
def center_lists(draw, max_n=5):
    pool = draw(st.sampled_from(_CENTER_POOLS))
    cs = draw(st.lists(st.sampled_from(pool), min_size=2, max_size=max_n, unique=True))
    if draw(st.booleans()):
        cs = sorted(cs)
    return cs


@st.composite
def edge_lists(draw, max_n=4, min_n=0):
    pool = draw(st.sampled_from(_CENTER_POOLS))
    es = draw(st.lists(st.sampled_from(pool), min_size=min_n, max_size=max_n, unique=True))
    return sorted(es)


# ---------------------------------------------------------------------------------------------------------
# quantities


@st.composite
def num_q(draw, cols=NUMCOLS, affine=True, flavours=FLAVOURS):
    q = {"t": "num", "col": draw(st.sampled_from(cols))}
    if affine and draw(st.integers(0, 5)) == 0:
        q["a"] = draw(st.sampled_from((2.0, -1.0, 0.5)))
        q["b"] = draw(st.sampled_from((0.0, 1.0, -0.5)))
    q["fl"] = draw(st.sampled_from(flavours))
    if q["fl"] in ("named", "named_cached", "named_str") and draw(st.integers(0, 5)) == 0:
        # a user's name may coincide with the name of one of the library's own functions
        q["name"] = draw(st.sampled_from(("identity", "square", "unweighted", "x")))
    return q


@st.composite
def sel_q(draw, flavours=FLAVOURS):
    if draw(st.booleans()):
        q = {"t": "num", "col": "w"}
    else:
        q = {"t": "gt", "col": draw(st.sampled_from(NUMCOLS)), "thr": draw(st.sampled_from((0.0, 0.5, -1.0, 1.0)))}
    q["fl"] = draw(st.sampled_from(flavours))
    return q


@st.composite
def cat_q(draw, flavours=FLAVOURS, cols=("s", "s", "b")):
    return {"t": "cat", "col": draw(st.sampled_from(cols)), "fl": draw(st.sampled_from(flavours))}


# ---------------------------------------------------------------------------------------------------------
# tree specs


class TreeOpts:
    def __init__(
        self,
        max_depth=3,
        kinds=ALL_KINDS,
        max_children=3,
        max_bins=8,
        count_transforms=False,
        bag_ranges=("N", "S", "N2"),
        flavours=FLAVOURS,
        affine=True,
        cat_cols=("s",),
        flows=True,
        flow_odds=4,
        transform_odds=8,
        count_bias=2,
    ):
        self.max_depth = max_depth
        self.kinds = tuple(kinds)
        self.max_children = max_children
        self.max_bins = max_bins
        self.count_transforms = count_transforms
        self.bag_ranges = bag_ranges
        self.flavours = flavours
        self.affine = affine
        self.cat_cols = cat_cols
        self.flows = flows  # non-Count aggregators in underflow/overflow/nanflow slots
        self.flow_odds = flow_odds  # ... in one of flow_odds slots
        self.transform_odds = transform_odds  # one of transform_odds Counts has a non-identity transform
        self.count_bias = count_bias  # tenths of the leaves forced to be Count (by far the most common leaf in real trees)


@st.composite
def leaf_specs(draw, o, kinds=None):
    ks = [k for k in (kinds or o.kinds) if k in LEAF_KINDS] or ["Count"]
    k = draw(st.sampled_from(ks))
    if "Count" in ks and o.count_bias and draw(st.integers(0, 9)) < o.count_bias:
        k = "Count"
    if k == "Count":
        if o.count_transforms and draw(st.integers(0, o.transform_odds - 1)) == 0:
            return {"k": "Count", "transform": draw(st.sampled_from(("sq", "half")))}
        return {"k": "Count"}
    if k == "Bag":
        r = draw(st.sampled_from(o.bag_ranges))
        if r == "N":
            return {"k": k, "range": r, "q": draw(num_q(affine=o.affine, flavours=o.flavours))}
        if r == "S":
            return {"k": k, "range": r, "q": {"t": "cat", "col": "t", "fl": draw(st.sampled_from(o.flavours))}}
        return {"k": k, "range": r, "q": {"t": "pair", "cols": ["x", "y"], "fl": draw(st.sampled_from(o.flavours))}}
    return {"k": k, "q": draw(num_q(affine=o.affine, flavours=o.flavours))}


@st.composite
def tree_specs(draw, o=None, depth=None, kinds=None):  # noqa: PLR0911, PLR0912
    o = o or TreeOpts()
    depth = o.max_depth if depth is None else depth
    kinds = kinds or o.kinds
    if depth <= 1:
        return draw(leaf_specs(o, kinds))
    nonleaf = [k for k in kinds if k not in LEAF_KINDS]
    if not nonleaf or draw(st.integers(0, 3)) == 0:
        if any(k in LEAF_KINDS for k in kinds):
            return draw(leaf_specs(o, kinds))
    k = draw(st.sampled_from(nonleaf or list(kinds)))

    def child(d=depth - 1, ks=None):
        return draw(tree_specs(o, d, ks or o.kinds))

    def flow():
        if o.flows and draw(st.integers(0, o.flow_odds - 1)) == 0:
            return child(min(depth - 1, 2))
        return {"k": "Count"}

    if k == "Bin":
        cfg = draw(bin_cfgs(o.max_bins))
        return {
            "k": k,
            "num": cfg["num"],
            "low": cfg["low"],
            "high": cfg["high"],
            "fam": cfg["fam"],
            "q": draw(num_q(affine=o.affine, flavours=o.flavours)),
            "value": child(),
            "underflow": flow(),
            "overflow": flow(),
            "nanflow": flow(),
        }
    if k == "SparselyBin":
        cfg = draw(sparse_cfgs())
        return {
            "k": k,
            "binWidth": cfg["binWidth"],
            "origin": cfg["origin"],
            "fam": cfg["fam"],
            "q": draw(num_q(affine=o.affine, flavours=o.flavours)),
            "value": child(),
            "nanflow": flow(),
        }
    if k == "CentrallyBin":
        return {
            "k": k,
            "centers": draw(center_lists(min(5, o.max_bins))),
            "q": draw(num_q(affine=o.affine, flavours=o.flavours)),
            "value": child(),
            "nanflow": flow(),
        }
    if k == "IrregularlyBin":
        es_ = draw(edge_lists(min(4, o.max_bins)))
        if es_ and draw(st.integers(0, 5)) == 0:
            # edges derived from quantiles of data with ties repeat a value: zero-width bins that stay empty
            i_ = draw(st.integers(0, len(es_) - 1))
            es_ = es_[: i_ + 1] + [es_[i_]] * draw(st.integers(1, 2)) + es_[i_ + 1 :]
        return {
            "k": k,
            "edges": es_,
            "q": draw(num_q(affine=o.affine, flavours=o.flavours)),
            "value": child(),
            "nanflow": flow(),
        }
    if k == "Stack":
        return {
            "k": k,
            # the cuts of a Stack are independent of each other: any order is a legitimate declaration
            "thresholds": draw(st.permutations(draw(edge_lists(min(4, o.max_bins))))) if draw(st.integers(0, 2)) == 0 else draw(edge_lists(min(4, o.max_bins))),
            "q": draw(num_q(affine=o.affine, flavours=o.flavours)),
            "value": child(),
            "nanflow": flow(),
        }
    if k == "Fraction":
        return {"k": k, "q": draw(sel_q(o.flavours)), "value": child()}
    if k == "Select":
        return {"k": k, "q": draw(sel_q(o.flavours)), "cut": child()}
    if k == "Categorize":
        return {"k": k, "q": draw(cat_q(o.flavours, o.cat_cols)), "value": child()}
    n = draw(st.integers(1, o.max_children))
    if k in ("Label", "Index"):
        # children of one primitive type (and one Bag range)
        first = child()
        same = [kk for kk in (first["k"],)]
        kids = [first]
        for _ in range(n - 1):
            c = child(ks=same)
            if c["k"] == "Bag":
                c = dict(first) if first["k"] == "Bag" else c
            kids.append(c)
    else:
        kids = [child() for _ in range(n)]
    if k in ("Label", "UntypedLabel"):
        keys = draw(st.lists(st.sampled_from(LABEL_KEYS), min_size=len(kids), max_size=len(kids), unique=True))
        return {"k": k, "pairs": dict(zip(keys, kids))}
    return {"k": k, "values": kids}


# ---------------------------------------------------------------------------------------------------------
# critical-value alphabets derived from a spec

MODERATE = (0.0, -0.0, 1.0, -1.0, 0.5, 2.0, 3.0, -2.5, 0.25, 7.0, 100.0, -64.0, 0.125)
INEXACT = (0.1, 0.3, 1.0 / 3.0, 0.7, -0.2, 1e-3, 123.456)
SPECIAL = (NAN, INF, -INF)


def _inv(q, v):
    a, b = q.get("a", 1.0), q.get("b", 0.0)
    if a == 1.0 and b == 0.0:
        return v
    return (v - b) / a


def critical_values(spec):
    """col -> list of per-node value lists (edges, midpoints, thresholds, centres, +-k ulps, mid-bin, far outside).

    Values are kept per binning node so that a row can be aimed at one node's own edges; the edge values
    themselves are listed three times so that sampling favours them over their ulp-neighbours.
    """
    out = {c: [] for c in NUMCOLS}
    for _, s in walk_spec(spec):
        q = s.get("q")
        if not q or q.get("t") not in ("num", "gt") or q["col"] not in out:
            continue
        crit, other = [], []
        k = s["k"]
        if q["t"] == "gt":
            crit = [q["thr"]]
            q = {"col": q["col"]}
        elif k == "Bin":
            n, lo, hi = s["num"], s["low"], s["high"]
            for i in range(n + 1):
                crit.append((hi - lo) * i / n + lo)
                crit.append(lo + i * ((hi - lo) / n))
            other += [lo + (i + 0.5) * ((hi - lo) / n) for i in range(min(n, 3))]
            other += [lo - (hi - lo), hi + (hi - lo)]
        elif k == "SparselyBin":
            bw, o = s["binWidth"], s["origin"]
            for i in (-3, -2, -1, 0, 1, 2, 3, 10):
                crit.append(i * bw + o)
            other += [o + 0.5 * bw, o - 1.5 * bw, o + 1e9 * bw]
        elif k == "CentrallyBin":
            cs = sorted(s["centers"])
            crit += [(a + b) / 2.0 for a, b in zip(cs, cs[1:])]
            other += cs
            other += [cs[0] - 1.0, cs[-1] + 1.0]
        elif k == "IrregularlyBin":
            crit += list(s["edges"])
            other += [(a + b) / 2.0 for a, b in zip(s["edges"], s["edges"][1:])]
        elif k == "Stack":
            crit += list(s["thresholds"])
        else:
            continue
        vals = []
        for v in crit:
            x = _inv(q, v)
            if math.isfinite(x):
                vals += [x, x, x]
                vals += [ulps(x, d) for d in (-1, 1, -2, 2, 3, -3)]
        for v in other:
            x = _inv(q, v)
            if math.isfinite(x):
                vals.append(x)
        if vals:
            out[q["col"]].append(vals)
    return out


@st.composite
def column_values(draw, crit, exactish=True, focus=False):
    """One numeric cell (focus: aim at the critical values of the binning nodes)."""
    r = draw(st.integers(0, 19))
    if crit and r < (17 if focus else 9):
        return draw(st.sampled_from(draw(st.sampled_from(crit))))
    if r < 15:
        return draw(st.sampled_from(MODERATE))
    if r < 17 and not exactish:
        return draw(st.sampled_from(INEXACT))
    if r < 19:
        return draw(st.sampled_from(SPECIAL))
    return draw(st.sampled_from(MODERATE if exactish else INEXACT))


SEL_EXACT = (1.0, 1.0, 0.0, 0.5, 2.0, -1.0, NAN, 0.25)
W_EXACT = (1.0, 1.0, 1.0, 0.5, 2.0, 0.125, 3.0, 0.0, -1.0, NAN)
W_INEXACT = (0.1, 1.0 / 3.0, 0.7, 1.0, 2.5)


@st.composite
def rows(draw, crit, exactish=True, cats=True, none_cats=True, focus=False):
    row = {c: draw(column_values(crit.get(c), exactish, focus)) for c in NUMCOLS}
    row["w"] = draw(st.sampled_from(SEL_EXACT if exactish else SEL_EXACT + (0.1, 0.3)))
    if cats:
        pool = CAT_VALUES + ((None, NAN) if none_cats else ())
        row["s"] = draw(st.sampled_from(pool))
        row["t"] = draw(st.sampled_from(("a", "b", "", "zz", "entries")))
        row["b"] = draw(st.booleans())
    return row


@st.composite
def weights(draw, exactish=True, nonpositive=True):
    pool = W_EXACT if exactish else W_EXACT + W_INEXACT
    if not nonpositive:
        pool = tuple(w for w in pool if w == w and w > 0)
    return draw(st.sampled_from(pool))


@st.composite
def streams(draw, spec, max_rows=30, exact_bias=True, nonpositive=True, none_cats=True, focus=False):
    """(list of (row, weight), exactish flag)."""
    crit = critical_values(spec)
    exactish = draw(st.integers(0, 9)) < 7 if exact_bias else False
    n = draw(st.integers(0, max_rows))
    out = []
    for _ in range(n):
        out.append((draw(rows(crit, exactish, none_cats=none_cats, focus=focus)), draw(weights(exactish, nonpositive))))
    if n and draw(st.integers(0, 5)) == 0:
        # a block of rows (often the whole stream) in which one numeric column holds one special value only: states
        # such as "non-empty but every quantity was NaN" are unreachable by independent per-cell draws
        col = draw(st.sampled_from(NUMCOLS))
        v = draw(st.sampled_from(SPECIAL + (0.0,)))
        lo = draw(st.sampled_from((0, 0, draw(st.integers(0, n - 1)))))
        hi = draw(st.sampled_from((n, n, draw(st.integers(lo + 1, n)))))
        for row, _ in out[lo:hi]:
            row[col] = v
    if n >= 2 and draw(st.integers(0, 7)) == 0 and any(s_["k"] in ("Fraction", "Select") and s_["q"].get("col") == "w" for _, s_ in walk_spec(spec)):
        # a weight-valued cut whose passing weight adds up to the total weight although the two sides of the cut hold
        # different data: cut values 2 and 0 in turn, unit weights, an even number of rows
        out = out[: 2 * (n // 2)]
        out = [(dict(row, w=2.0 if i_ % 2 == 0 else 0.0), 1.0) for i_, (row, _) in enumerate(out)]
    return out, exactish


@st.composite
def edge_focus_specs(draw, o=None):
    """A single binning node on column x (any configuration family) over a Count or a simple leaf, optionally
    under a Select or inside a Label: the shape in which edge routing is exercised most densely."""
    o = o or TreeOpts()
    oo = TreeOpts(max_depth=2, kinds=BIN_KINDS + ("Count", "Count", "Sum", "Average", "Minimize"), max_bins=o.max_bins,
                  bag_ranges=o.bag_ranges, flavours=o.flavours, affine=False, cat_cols=o.cat_cols, flows=False)
    kind = draw(st.sampled_from([k for k in BIN_KINDS if k in o.kinds] or list(BIN_KINDS)))
    spec = draw(tree_specs(oo, 2, (kind,)))
    spec["q"] = {"t": "num", "col": "x", "fl": draw(st.sampled_from(o.flavours))}
    wrap = draw(st.integers(0, 5))
    if wrap == 0 and "Select" in o.kinds:
        return {"k": "Select", "q": {"t": "num", "col": "w", "fl": draw(st.sampled_from(o.flavours))}, "cut": spec}
    if wrap == 1 and "Label" in o.kinds:
        return {"k": "Label", "pairs": {"a": spec}}
    return spec


@st.composite
def special_shapes(draw, o=None):
    """The combinations histogrammar.specialized recognises (1-D / 2-D histograms, profiles, stacked / partitioned /
    fractioned histograms) and their near misses (another leaf, one level more): objects of these shapes get mixin
    classes with extra methods - and lose or change them - depending on how they were built."""
    o = o or TreeOpts()
    fl = lambda: draw(st.sampled_from(o.flavours))  # noqa: E731
    leaf_k = draw(st.sampled_from(("Count", "Count", "Count", "Average", "Deviate", "Sum")))
    cols = iter(("x", "y", "z", "x", "y"))

    def leaf():
        if leaf_k == "Count":
            return {"k": "Count"}
        return {"k": leaf_k, "q": {"t": "num", "col": "z", "fl": fl()}}

    def node(kind, value):
        q = {"t": "num", "col": next(cols), "fl": fl()}
        if kind == "Bin":
            c = draw(bin_cfgs(min(4, o.max_bins)))
            return {"k": "Bin", "num": c["num"], "low": c["low"], "high": c["high"], "fam": c["fam"], "q": q, "value": value,
                    "underflow": {"k": "Count"}, "overflow": {"k": "Count"}, "nanflow": {"k": "Count"}}
        if kind == "SparselyBin":
            c = draw(sparse_cfgs())
            return {"k": "SparselyBin", "binWidth": c["binWidth"], "origin": c["origin"], "fam": c["fam"], "q": q, "value": value, "nanflow": {"k": "Count"}}
        if kind == "IrregularlyBin":
            return {"k": "IrregularlyBin", "edges": draw(edge_lists(3, 1)), "q": q, "value": value, "nanflow": {"k": "Count"}}
        if kind == "CentrallyBin":
            return {"k": "CentrallyBin", "centers": draw(center_lists(4)), "q": q, "value": value, "nanflow": {"k": "Count"}}
        if kind == "Stack":
            return {"k": "Stack", "thresholds": draw(edge_lists(3, 1)), "q": q, "value": value, "nanflow": {"k": "Count"}}
        if kind == "Categorize":
            return {"k": "Categorize", "q": {"t": "cat", "col": draw(st.sampled_from(o.cat_cols)), "fl": fl()}, "value": value}
        if kind == "Select":
            return {"k": "Select", "q": draw(sel_q(o.flavours)), "cut": value}
        if kind == "Fraction":
            return {"k": "Fraction", "q": draw(sel_q(o.flavours)), "value": value}
        raise ValueError(kind)

    allowed = [k for k in ("Bin", "SparselyBin", "IrregularlyBin") if k in o.kinds] or ["Bin"]
    shape = draw(st.sampled_from(("1d", "2d", "2d", "3d", "over", "over")))
    if shape == "1d":
        ks = [k for k in ("Bin", "SparselyBin", "IrregularlyBin", "CentrallyBin", "Categorize") if k in o.kinds] or ["Bin"]
        return node(draw(st.sampled_from(ks)), leaf())
    if shape == "2d":
        k = draw(st.sampled_from(allowed))
        return node(k, node(k, leaf()))
    if shape == "3d":
        k = draw(st.sampled_from(allowed))
        return node(k, node(k, node(draw(st.sampled_from(allowed)), leaf())))
    inner = node(draw(st.sampled_from([k for k in ("Bin", "SparselyBin") if k in o.kinds] or ["Bin"])), leaf())
    if "Select" in o.kinds and draw(st.booleans()):
        inner = node("Select", inner)
    outer = draw(st.sampled_from([k for k in ("Stack", "IrregularlyBin", "Fraction") if k in o.kinds] or ["Bin"]))
    return node(outer, inner)


@st.composite
def specs_and_focus(draw, o=None, edge_share=3):
    """(spec, focus): one case in `edge_share` is an edge-focused single binning node; one in eight of the others has one
    of the shapes that histogrammar.specialized recognises (or nearly recognises)."""
    if draw(st.integers(0, edge_share - 1)) == 0:
        return draw(edge_focus_specs(o)), True
    if draw(st.integers(0, 7)) == 0:
        return draw(special_shapes(o)), False
    return draw(tree_specs(o)), False


@st.composite
def cuts(draw, n, max_chunks=6):
    """Sorted cut points (with repetitions -> empty chunks) splitting range(n) into k >= 1 chunks."""
    k = draw(st.integers(1, max_chunks))
    pts = sorted(draw(st.lists(st.integers(0, n), min_size=k - 1, max_size=k - 1)))
    return pts


def split(seq, pts):
    out, prev = [], 0
    for p in pts:
        out.append(seq[prev:p])
        prev = p
    out.append(seq[prev:])
    return out


# ---------------------------------------------------------------------------------------------------------
# reachable states: a recipe is plain data, realised by states.realize()


@st.composite
def recipes(draw, spec, max_rows=12, reload_ok=True, scale_ok=True, focus=False, inf_weights=False):
    """How to reach a state of `spec`: fills, an optional merge with a second filled tree, an optional scaling,
    an optional copy(), an optional pickle round trip, and optionally a JSON reload (immutable form)."""
    stream, exactish = draw(streams(spec, max_rows=max_rows, focus=focus))
    rec = {"fills": [[r, w] for r, w in stream], "exactish": exactish}
    if inf_weights and stream and draw(st.integers(0, 7)) == 0:
        # counts that are not finite: an infinite weight, or two huge ones that overflow together
        for _ in range(draw(st.integers(1, 2))):
            row = stream[draw(st.integers(0, len(stream) - 1))][0]
            for w in draw(st.sampled_from(((float("inf"),), (1e308, 1e308)))):
                rec["fills"].append([row, w])
    if draw(st.integers(0, 3)) == 0:
        other, _ = draw(streams(spec, max_rows=max(2, max_rows // 2), focus=focus))
        rec["merge"] = [[r, w] for r, w in other]
    if scale_ok and draw(st.integers(0, 5)) == 0:
        rec["scale"] = draw(st.sampled_from((2.0, 0.5, 3.0)))
    if draw(st.integers(0, 5)) == 0:
        rec["copy"] = True
    if draw(st.integers(0, 5)) == 0:
        rec["pickle"] = True  # an unpickled object is a first-class one (its functions are copies, not the originals)
    if reload_ok and draw(st.integers(0, 4)) == 0:
        rec["reload"] = True
    return rec


# ---------------------------------------------------------------------------------------------------------
# structural variants: the same tree with exactly one structural aspect changed at one node


def _same_kind_children(kids):
    ks = {c["k"] for c in kids}
    if len(ks) != 1:
        return False
    if "Bag" in ks:
        return len({c["range"] for c in kids}) == 1
    return True


def node_variants(s, parent_kind=None, siblings=1):
    """[(description, replacement node)] for one spec node."""
    import copy  # noqa: PLC0415

    out = []
    k = s["k"]

    def mod(desc, **changes):
        n = copy.deepcopy(s)
        n.update(changes)
        out.append((desc, n))

    free_type = parent_kind not in ("Label", "Index") or siblings == 1
    if k == "Bin":
        mod("Bin.num+1", num=s["num"] + 1)
        mod("Bin.low-1", low=s["low"] - 1.0)
        mod("Bin.high+1", high=s["high"] + 1.0)
        # differences far below any sensible comparison tolerance are differences all the same
        tiny = 1e-9 * max(1.0, abs(s["low"]), abs(s["high"]))
        if s["low"] - tiny < s["low"]:
            mod("Bin.low-tiny", low=s["low"] - tiny)
            mod("Bin.high+tiny", high=s["high"] + tiny)
        for slot in ("underflow", "overflow", "nanflow"):
            if s[slot]["k"] == "Count":
                mod(f"Bin.{slot}:Count->Sum", **{slot: {"k": "Sum", "q": {"t": "num", "col": "z", "fl": "lambda"}}})
    elif k == "SparselyBin":
        mod("SparselyBin.binWidth*2", binWidth=s["binWidth"] * 2.0)
        mod("SparselyBin.origin+0.5", origin=s["origin"] + 0.5)
        if s["binWidth"] * (1.0 + 1e-9) > s["binWidth"]:
            mod("SparselyBin.binWidth*(1+tiny)", binWidth=s["binWidth"] * (1.0 + 1e-9))
        if s["origin"] + 1e-9 * max(1.0, abs(s["origin"])) > s["origin"]:
            mod("SparselyBin.origin+tiny", origin=s["origin"] + 1e-9 * max(1.0, abs(s["origin"])))
        # a width that differs only by what the rounding of origin + binWidth swallows: the two declarations
        # have the same first upper edge and different widths all the same
        absorbed = (s["origin"] + s["binWidth"]) - s["origin"]
        if absorbed != s["binWidth"] and absorbed > 0.0:
            mod("SparselyBin.binWidth-absorbed-by-origin", binWidth=absorbed)
    elif k == "CentrallyBin":
        cs = sorted(s["centers"])
        mod("CentrallyBin.extra-trailing-centre", centers=cs + [cs[-1] + 16.0])
        mod("CentrallyBin.centre-moved", centers=cs[:-1] + [cs[-1] + 0.25])
        if cs[-1] + 1e-9 * max(1.0, abs(cs[-1])) > cs[-1]:
            mod("CentrallyBin.centre-nudged", centers=cs[:-1] + [cs[-1] + 1e-9 * max(1.0, abs(cs[-1]))])
    elif k in ("IrregularlyBin", "Stack"):
        key = "edges" if k == "IrregularlyBin" else "thresholds"
        es = list(s[key])
        mod(f"{k}.extra-trailing-threshold", **{key: es + [(es[-1] if es else 0.0) + 16.0]})
        if es:
            mod(f"{k}.threshold-dropped", **{key: es[:-1]})
            mod(f"{k}.threshold-moved", **{key: es[:-1] + [es[-1] + 0.25]})
            if es[-1] + 1e-9 * max(1.0, abs(es[-1])) > es[-1]:
                mod(f"{k}.threshold-nudged", **{key: es[:-1] + [es[-1] + 1e-9 * max(1.0, abs(es[-1]))]})
        if free_type:
            other = "Stack" if k == "IrregularlyBin" else "IrregularlyBin"
            n = copy.deepcopy(s)
            n["k"] = other
            n["thresholds" if other == "Stack" else "edges"] = n.pop(key)
            out.append((f"{k}->{other}", n))
    elif k in ("Label", "UntypedLabel"):
        keys = list(s["pairs"])
        fresh = next(x for x in ("zz1", "zz2", "zz3") if x not in keys)
        first = s["pairs"][keys[0]]
        mod(f"{k}.extra-key", pairs={**copy.deepcopy(s["pairs"]), fresh: copy.deepcopy(first)})
        mod(f"{k}.key-renamed", pairs={**{kk: copy.deepcopy(v) for kk, v in s["pairs"].items() if kk != keys[-1]}, fresh: copy.deepcopy(s["pairs"][keys[-1]])})
        if free_type and (k == "Label" or _same_kind_children(list(s["pairs"].values()))):
            mod(f"{k}->other-label", k="UntypedLabel" if k == "Label" else "Label")
    elif k in ("Index", "Branch"):
        mod(f"{k}.size+1", values=copy.deepcopy(s["values"]) + [copy.deepcopy(s["values"][0])])
        if free_type and (k == "Index" or _same_kind_children(s["values"])):
            mod(f"{k}->other-collection", k="Branch" if k == "Index" else "Index")
    elif k in ("Sum", "Average", "Deviate", "Minimize", "Maximize") and free_type:
        for other in ("Sum", "Average", "Deviate", "Minimize", "Maximize"):
            if other != k and (other, k) in (("Average", "Deviate"), ("Deviate", "Average"), ("Minimize", "Maximize"), ("Maximize", "Minimize"), ("Sum", "Average"), ("Average", "Sum"), ("Sum", "Minimize"), ("Maximize", "Sum"), ("Deviate", "Sum")):
                mod(f"{k}->{other}", k=other)
    elif k == "Count" and free_type:
        out.append(("Count->Sum", {"k": "Sum", "q": {"t": "num", "col": "z", "fl": "lambda"}}))
    elif k == "Bag":
        if s["range"] == "N" and (free_type):
            out.append(("Bag.range N->N2", {"k": "Bag", "range": "N2", "q": {"t": "pair", "cols": ["x", "y"], "fl": s["q"]["fl"]}}))
            out.append(("Bag.range N->S", {"k": "Bag", "range": "S", "q": {"t": "cat", "col": "t", "fl": s["q"]["fl"]}}))
        if s["range"] in ("S", "N2") and (free_type):
            # the range is a declared parameter: two bags that hold nothing (yet) differ in it all the same
            out.append((f"Bag.range {s['range']}->N", {"k": "Bag", "range": "N", "q": {"t": "num", "col": "x", "fl": s["q"]["fl"]}}))
        if free_type:
            out.append(("Bag->Count", {"k": "Count"}))
    elif k == "Fraction" and free_type:
        n = copy.deepcopy(s)
        out.append(("Fraction->Select", {"k": "Select", "q": n["q"], "cut": n["value"]}))
    elif k == "Select" and free_type:
        n = copy.deepcopy(s)
        out.append(("Select->Fraction", {"k": "Fraction", "q": n["q"], "value": n["cut"]}))
        out.append(("Select->its-cut", copy.deepcopy(s["cut"])))
    if free_type and k != "Select":
        # a Select forwards unknown attributes to its cut: it must still not pass for the aggregator it wraps
        out.append((f"{k}->Select({k})", {"k": "Select", "q": {"t": "num", "col": "w", "fl": "lambda"}, "cut": copy.deepcopy(s)}))
    return out


def all_variants(spec):
    """[(path, description, variant spec)]: every single-aspect structural variant of the tree."""
    import copy  # noqa: PLC0415

    from .spec import child_specs  # noqa: PLC0415

    out = []

    def rec(s, path, parent_kind, siblings):
        for desc, n in node_variants(s, parent_kind, siblings):
            out.append((path, desc, n))
        kids = list(child_specs(s))
        for slot, key, c in kids:
            nsib = len(kids) if s["k"] in ("Label", "Index") else 1
            rec(c, path + ((slot,) if key is None else (slot, key)), s["k"], nsib)

    rec(spec, (), None, 1)
    res = []
    for path, desc, n in out:
        root = copy.deepcopy(spec)
        if not path:
            root = n
        else:
            cur = root
            for p in path[:-1]:
                cur = cur[p]
            cur[path[-1]] = n
        res.append((path, desc, root))
    return res


@st.composite
def variant_of(draw, spec):
    vs = all_variants(spec)
    if not vs:
        return None
    groups = {}
    for v in vs:
        groups.setdefault(v[1], []).append(v)
    g = groups[draw(st.sampled_from(sorted(groups)))]
    path, desc, v = g[draw(st.integers(0, len(g) - 1))]
    return {"path": list(path), "desc": desc, "spec": v}


@st.composite
def with_transform_templates(draw, spec):
    """The spec with a Count(transform) value template in every sparse container that counts (and an extra Categorize
    beside the tree when there is none): bins created later - by fills, by merges, after reloads and unpickling - must
    follow the template's declaration."""
    import copy  # noqa: PLC0415

    from .spec import walk_spec  # noqa: PLC0415

    spec = copy.deepcopy(spec)
    hit = False
    for _, node in list(walk_spec(spec)):
        if node["k"] in ("Categorize", "SparselyBin") and node["value"]["k"] == "Count":
            node["value"] = {"k": "Count", "transform": draw(st.sampled_from(("sq", "half")))}
            hit = True
    if not hit:
        extra = {"k": "Categorize", "q": {"t": "cat", "col": "s", "fl": "lambda"}, "value": {"k": "Count", "transform": draw(st.sampled_from(("sq", "half")))}}
        spec = {"k": "UntypedLabel", "pairs": {"main": spec, "extra": extra}}
    return spec
