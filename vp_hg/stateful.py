"""Shared driver for the rule-based state machines (C05, C06).

Hypothesis' shrinker is very slow on long op histories (and has a hard 5-minute cap), so machines run with the
generate phase only; the failing history - already cut at the failing step - is then minimised by a cheap greedy
pass that drops operations which do not create pool members (so indexes stay valid), under a time budget.
"""

import time

from .common import dec, enc, hygiene
from .core import Violation

NON_CREATING = ("fill", "fillnp", "iadd", "tojson", "eq", "hash", "repr", "accessors", "dumps")


def fails(mod, ops, kind, extra):
    from .run import checked  # noqa: PLC0415

    hygiene()
    try:
        checked(mod, dict(extra, mode="history", ops=ops))
    except Violation as v:
        return v if v.kind == kind else None
    except Exception:  # noqa: BLE001
        return None
    return None


def minimise(mod, rec, budget_s=20.0):
    """Greedy removal of non-creating ops from a failing history record (as stored in Collector.last_failure)."""
    t0 = time.time()
    case = dec(rec["case"])
    ops = list(case["ops"])
    extra = {k: v for k, v in case.items() if k not in ("ops", "mode")}
    kind = rec["kind"]
    best = fails(mod, ops, kind, extra)
    if best is None:
        return rec
    i = len(ops) - 2  # the last op is the failing one
    while i >= 0 and time.time() - t0 < budget_s:
        if ops[i]["op"] in NON_CREATING:
            trial = ops[:i] + ops[i + 1 :]
            v = fails(mod, trial, kind, extra)
            if v is not None:
                ops, best = trial, v
        i -= 1
    return {"case": enc(dict(extra, mode="history", ops=ops)), "kind": best.kind, "detail": best.detail, "sig": enc(best.sig)}


def run_machine(mod, Machine, seed, examples, col):
    import hypothesis  # noqa: PLC0415
    from hypothesis import HealthCheck, Phase, settings  # noqa: PLC0415
    from hypothesis.stateful import run_state_machine_as_test  # noqa: PLC0415

    try:
        run_state_machine_as_test(
            hypothesis.seed(seed)(Machine),
            settings=settings(
                max_examples=examples,
                stateful_step_count=Machine.steps,
                database=None,
                deadline=None,
                derandomize=False,
                report_multiple_bugs=False,
                phases=(Phase.generate,),
                suppress_health_check=[HealthCheck.too_slow, HealthCheck.data_too_large, HealthCheck.large_base_example, HealthCheck.filter_too_much],
            ),
        )
    except Violation:
        if col.last_failure is not None:
            col.first_failure = col.last_failure
            col.last_failure = minimise(mod, col.last_failure)
        raise
