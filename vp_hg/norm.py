"""Typed normaliser for toJson() documents and field-aware comparators.

norm(doc) turns a toJson() document {"type","data","version"} into a typed tree
    {"T": <primitive>, <field>: ..., <child slot>: <typed tree> ...}
in which "nan"/"inf"/"-inf" are floats, Bag values are a map from a canonical key to the weight, sparse /
category / label maps are dicts of typed trees, and (optionally) quantity names are stripped and sparse bins /
categories that hold zero weight are dropped.  The reference model (model.py) produces the same shape, so one
comparator serves library-vs-library and library-vs-model checks.

diff(a, b, policy) walks two typed trees in parallel and returns a list of differences; numbers are compared by
value (3 == 3.0, NaN == NaN); which fields get a tolerance is decided by the field name.
"""

import math
from fractions import Fraction

_NONFINITE = {"nan": float("nan"), "inf": float("inf"), "-inf": float("-inf")}


class NormError(Exception):
    """The document does not have the shape toJson() is specified to produce."""


def num(x):
    if isinstance(x, str) and x in _NONFINITE:
        return _NONFINITE[x]
    if isinstance(x, bool) or not isinstance(x, (int, float, Fraction)):
        raise NormError(f"not a number: {x!r}")
    return x


def bagkey(v):
    if isinstance(v, str) and v in _NONFINITE:
        v = _NONFINITE[v]
    if isinstance(v, (list, tuple)):
        return "(" + ",".join(bagkey(x) for x in v) + ")"
    if isinstance(v, bool):
        return repr(v)
    if isinstance(v, (int, float)):
        return repr(float(v) + 0.0)
    return "s:" + str(v)


def weight_of(t):
    return t["entries"]


def norm(doc, names=True, drop_zero=False):
    if not (isinstance(doc, dict) and "type" in doc and "data" in doc):
        raise NormError(f"not a document: {doc!r}")
    out = typed(doc["type"], doc["data"], names, drop_zero)
    return out


def typed(T, f, names=True, drop_zero=False):  # noqa: PLR0911, PLR0912
    def sub(t, x):
        return typed(t, x, names, drop_zero)

    def nm(out, *keys):
        if names:
            for k in keys:
                if isinstance(f, dict) and f.get(k) is not None:
                    out[k] = f[k]
        return out

    if T == "Count":
        return {"T": T, "entries": num(f)}
    if not isinstance(f, dict):
        raise NormError(f"{T} fragment is not an object: {f!r}")
    if T == "Sum":
        return nm({"T": T, "entries": num(f["entries"]), "sum": num(f["sum"])}, "name")
    if T == "Average":
        return nm({"T": T, "entries": num(f["entries"]), "mean": num(f["mean"])}, "name")
    if T == "Deviate":
        return nm({"T": T, "entries": num(f["entries"]), "mean": num(f["mean"]), "variance": num(f["variance"])}, "name")
    if T == "Minimize":
        return nm({"T": T, "entries": num(f["entries"]), "min": num(f["min"])}, "name")
    if T == "Maximize":
        return nm({"T": T, "entries": num(f["entries"]), "max": num(f["max"])}, "name")
    if T == "Bag":
        vals = {}
        for e in f["values"]:
            k = bagkey(e["v"])
            if k in vals:
                raise NormError(f"duplicate Bag value {k}")
            vals[k] = num(e["w"])
        return nm({"T": T, "entries": num(f["entries"]), "range": f["range"], "values": vals}, "name")
    if T == "Bin":
        vt = f["values:type"]
        return nm(
            {
                "T": T,
                "low": num(f["low"]),
                "high": num(f["high"]),
                "entries": num(f["entries"]),
                "values": [sub(vt, x) for x in f["values"]],
                "underflow": sub(f["underflow:type"], f["underflow"]),
                "overflow": sub(f["overflow:type"], f["overflow"]),
                "nanflow": sub(f["nanflow:type"], f["nanflow"]),
            },
            "name",
            "values:name",
        )
    if T == "SparselyBin":
        bt = f["bins:type"]
        bins = {str(k): sub(bt, v) for k, v in f["bins"].items()}
        if drop_zero:
            bins = {k: v for k, v in bins.items() if weight_of(v) != 0}
        return nm(
            {
                "T": T,
                "binWidth": num(f["binWidth"]),
                "origin": num(f["origin"]),
                "entries": num(f["entries"]),
                "bins:type": bt,
                "bins": bins,
                "nanflow": sub(f["nanflow:type"], f["nanflow"]),
            },
            "name",
            "bins:name",
        )
    if T == "CentrallyBin":
        bt = f["bins:type"]
        return nm(
            {
                "T": T,
                "entries": num(f["entries"]),
                "bins": [{"T": "@center", "center": num(b["center"]), "data": sub(bt, b["data"])} for b in f["bins"]],
                "nanflow": sub(f["nanflow:type"], f["nanflow"]),
            },
            "name",
            "bins:name",
        )
    if T in ("IrregularlyBin", "Stack"):
        bt = f["bins:type"]
        return nm(
            {
                "T": T,
                "entries": num(f["entries"]),
                "bins": [{"T": "@atleast", "atleast": num(b["atleast"]), "data": sub(bt, b["data"])} for b in f["bins"]],
                "nanflow": sub(f["nanflow:type"], f["nanflow"]),
            },
            "name",
            "bins:name",
        )
    if T == "Fraction":
        st = f["sub:type"]
        return nm(
            {"T": T, "entries": num(f["entries"]), "numerator": sub(st, f["numerator"]), "denominator": sub(st, f["denominator"])},
            "name",
            "sub:name",
        )
    if T == "Select":
        return nm({"T": T, "entries": num(f["entries"]), "data": sub(f["sub:type"], f["data"])}, "name")
    if T == "Categorize":
        bt = f["bins:type"]
        bins = {str(k): sub(bt, v) for k, v in f["bins"].items()}
        if drop_zero:
            bins = {k: v for k, v in bins.items() if weight_of(v) != 0}
        return nm({"T": T, "entries": num(f["entries"]), "bins:type": bt, "bins": bins}, "name", "bins:name")
    if T == "Label":
        st = f["sub:type"]
        return {"T": T, "entries": num(f["entries"]), "sub:type": st, "data": {str(k): sub(st, v) for k, v in f["data"].items()}}
    if T == "UntypedLabel":
        return {"T": T, "entries": num(f["entries"]), "data": {str(k): sub(v["type"], v["data"]) for k, v in f["data"].items()}}
    if T == "Index":
        st = f["sub:type"]
        return {"T": T, "entries": num(f["entries"]), "sub:type": st, "data": [sub(st, v) for v in f["data"]]}
    if T == "Branch":
        return {"T": T, "entries": num(f["entries"]), "data": [sub(v["type"], v["data"]) for v in f["data"]]}
    raise NormError(f"unknown type {T!r}")


def strip_empty_types(t):
    """Forget the declared content type of sparse maps that are empty (it is not content)."""
    if isinstance(t, dict):
        out = {k: strip_empty_types(v) for k, v in t.items()}
        if out.get("T") in ("SparselyBin", "Categorize") and not out["bins"]:
            out.pop("bins:type", None)
        return out
    if isinstance(t, list):
        return [strip_empty_types(v) for v in t]
    return t


class Policy:
    """Numeric comparison policy.

    exact: entries / sums / weights / extrema must be identical as values; otherwise accumulated sums get `rel`.
    moments ('mean', 'variance') always get a tolerance unless exact_moments:
        |a-b| <= rel*max(|a|,|b|) + 1e-9*scale**p   (p = 1 for mean and sum, 2 for variance)
    where scale = 1 + the largest finite magnitude among the quantities that were filled.
    """

    def __init__(self, exact=True, rel=1e-9, scale=1.0, exact_moments=False):
        self.exact = exact
        self.rel = rel
        self.scale = max(1.0, scale)
        self.exact_moments = exact_moments

    def close(self, key, a, b):
        a, b = float(a), float(b)
        if math.isnan(a) or math.isnan(b):
            return math.isnan(a) and math.isnan(b)
        if math.isinf(a) or math.isinf(b):
            return a == b
        if a == b:
            return True
        if key in ("mean", "variance"):
            if self.exact_moments:
                return False
            p = 2 if key == "variance" else 1
            return abs(a - b) <= self.rel * max(abs(a), abs(b)) + 1e-9 * self.scale**p
        if key in ("low", "high", "binWidth", "origin", "center", "atleast", "min", "max"):
            return False
        if self.exact:
            return False
        if key == "sum":
            return abs(a - b) <= self.rel * max(abs(a), abs(b)) + 1e-9 * self.scale
        return abs(a - b) <= self.rel * max(abs(a), abs(b)) + 1e-12


EXACT = Policy(exact=True)
BITEXACT = Policy(exact=True, exact_moments=True)


def _isnum(x):
    return isinstance(x, (int, float, Fraction)) and not isinstance(x, bool)


def diff(a, b, policy=EXACT, path=(), key=None, out=None, limit=8):
    """Differences between two typed trees as [(path, a, b)] (at most `limit`)."""
    if out is None:
        out = []
    if len(out) >= limit:
        return out
    if _isnum(a) and _isnum(b):
        if not policy.close(key, a, b):
            out.append((path, a, b))
        return out
    if isinstance(a, dict) and isinstance(b, dict):
        if a.get("T") != b.get("T"):
            out.append((path + ("T",), a.get("T"), b.get("T")))
            return out
        for k in sorted(set(a) | set(b)):
            if k not in a:
                out.append((path + (k,), "<missing>", _brief(b[k])))
            elif k not in b:
                out.append((path + (k,), _brief(a[k]), "<missing>"))
            else:
                # numeric children of a free-keyed map (Bag values) are weights: compared like entries
                diff(a[k], b[k], policy, path + (k,), key if key == "@w" else k, out, limit)
        return out
    if isinstance(a, list) and isinstance(b, list):
        if len(a) != len(b):
            out.append((path, f"<list of {len(a)}>", f"<list of {len(b)}>"))
            return out
        for i, (x, y) in enumerate(zip(a, b)):
            diff(x, y, policy, path + (i,), key, out, limit)
        return out
    if type(a) is not type(b) or a != b:
        out.append((path, _brief(a), _brief(b)))
    return out


def _brief(x):
    s = repr(x)
    return s if len(s) < 120 else s[:117] + "..."


def same(a, b, policy=EXACT):
    return not diff(a, b, policy, limit=1)


def fmt(diffs):
    return "; ".join(f"{'/'.join(map(str, p))}: {x!r} vs {y!r}" for p, x, y in diffs)
