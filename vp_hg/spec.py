"""Tree specs ("programs") as plain JSON data, and the builder spec -> live aggregator.

A spec is a nested dict {"k": <primitive>, ...params..., children}.  Quantities are data too:
  {"t":"num","col":"x","a":1.0,"b":0.0}   numeric  a*row[col]+b   (a,b omitted = identity on the column)
  {"t":"gt","col":"x","thr":0.5}          boolean  row[col] > thr  (selection functions)
  {"t":"cat","col":"s"}                   category (string / None / NaN / bool column)
  {"t":"pair","cols":["x","y"]}           tuple    (Bag range N2)
with "fl" the flavour the builder renders it in (lambda / def / str / named / cached / named_cached /
named_str / cached_str) and an optional "name".
All rendered functions are self-contained (no closure cells, no module globals) so they can be pickled by
histogrammar.util.UserFcn.__reduce__.
"""

from .common import lib

LEAVES = ("Count", "Sum", "Average", "Deviate", "Minimize", "Maximize", "Bag")
FLAVOURS = ("lambda", "lambda_kw", "def", "str", "named", "cached", "named_cached", "named_str", "cached_str")

# children slots per primitive: (slot name, kind) with kind in {"one", "list", "map"}
SLOTS = {
    "Bin": (("value", "one"), ("underflow", "one"), ("overflow", "one"), ("nanflow", "one")),
    "SparselyBin": (("value", "one"), ("nanflow", "one")),
    "CentrallyBin": (("value", "one"), ("nanflow", "one")),
    "IrregularlyBin": (("value", "one"), ("nanflow", "one")),
    "Stack": (("value", "one"), ("nanflow", "one")),
    "Fraction": (("value", "one"),),
    "Select": (("cut", "one"),),
    "Categorize": (("value", "one"),),
    "Label": (("pairs", "map"),),
    "UntypedLabel": (("pairs", "map"),),
    "Index": (("values", "list"),),
    "Branch": (("values", "list"),),
}


def count():
    return {"k": "Count"}


def qexpr(q):
    """The string-expression form of a quantity."""
    t = q["t"]
    if t == "num":
        a, b = q.get("a", 1.0), q.get("b", 0.0)
        if a == 1.0 and b == 0.0:
            return q["col"]
        return f"{a!r} * {q['col']} + {b!r}"
    if t == "gt":
        return f"{q['col']} > {q['thr']!r}"
    if t == "cat":
        return q["col"]
    if t == "pair":
        return "(" + ", ".join(q["cols"]) + ")"
    raise ValueError(t)


def _lambda_src(q):
    t = q["t"]
    if t == "num":
        a, b = q.get("a", 1.0), q.get("b", 0.0)
        if a == 1.0 and b == 0.0:
            return f"lambda d, c={q['col']!r}: d[c]"
        return f"lambda d, c={q['col']!r}, a={a!r}, b={b!r}: a * d[c] + b"
    if t == "gt":
        return f"lambda d, c={q['col']!r}, t={q['thr']!r}: d[c] > t"
    if t == "cat":
        return f"lambda d, c={q['col']!r}: d[c]"
    if t == "pair":
        c0, c1 = q["cols"]
        return f"lambda d, c0={c0!r}, c1={c1!r}: (d[c0], d[c1])"
    raise ValueError(t)


def _inline_src(q):
    """The quantity as users write it: constants and field names inline (same float operations as _lambda_src)."""
    t = q["t"]
    if t == "num":
        a, b = q.get("a", 1.0), q.get("b", 0.0)
        if a == 1.0 and b == 0.0:
            return f"lambda d: d[{q['col']!r}]"
        return f"lambda d: {a!r} * d[{q['col']!r}] + {b!r}"
    if t == "gt":
        return f"lambda d: d[{q['col']!r}] > {q['thr']!r}"
    if t == "cat":
        return f"lambda d: d[{q['col']!r}]"
    if t == "pair":
        c0, c1 = q["cols"]
        return f"lambda d: (d[{c0!r}], d[{c1!r}])"
    raise ValueError(t)


def make_callable(q, flavour=None):
    """A bare Python function or a string for quantity q (before any histogrammar wrapper).  Flavour 'lambda' has its
    constants and field names inline (many quantities of one tree then share their bytecode and differ in constants
    only); 'lambda_kw' and 'def' carry them as default arguments."""
    fl = flavour or q.get("fl", "lambda")
    if fl in ("str", "named_str", "cached_str"):
        return qexpr(q)
    if fl in ("lambda", "named", "cached", "named_cached"):
        return eval(_inline_src(q), {})  # noqa: S307
    src = _lambda_src(q)
    if fl == "def":
        head, body = src.split(":", 1)
        args = head[len("lambda ") :]
        ns = {}
        nm = "q_" + "_".join(q.get("cols", [q.get("col", "q")]))
        exec(f"def {nm}({args}):\n    return {body.strip()}\n", ns)  # noqa: S102
        return ns[nm]
    return eval(src, {})  # noqa: S307


def make_quantity(q):
    """Render quantity spec q in its flavour, wrapped as the user would."""
    from histogrammar.util import cached, named  # noqa: PLC0415

    fl = q.get("fl", "lambda")
    f = make_callable(q, fl)
    nm = q.get("name")
    if fl in ("named", "named_str"):
        return named(nm or "nm_" + qexpr(q).replace(" ", ""), f)
    if fl in ("cached", "cached_str"):
        return cached(f)
    if fl == "named_cached":
        return cached(named(nm or "nc_" + qexpr(q).replace(" ", ""), f))
    return f


def eval_q(q, row):
    """Harness-side evaluation of a quantity on a row (same float operations as the rendered function)."""
    t = q["t"]
    if t == "num":
        a, b = q.get("a", 1.0), q.get("b", 0.0)
        v = row[q["col"]]
        if a == 1.0 and b == 0.0:
            return v
        return a * v + b
    if t == "gt":
        return row[q["col"]] > q["thr"]
    if t == "cat":
        return row[q["col"]]
    if t == "pair":
        return tuple(row[c] for c in q["cols"])
    raise ValueError(t)


def build(spec, qhook=None, path=()):
    """Build a live aggregator from a spec.  qhook(path, spec, q) may return a replacement quantity."""
    hg = lib()
    k = spec["k"]

    def quantity():
        if qhook is not None:
            r = qhook(path, spec, spec["q"])
            if r is not None:
                return r
        return make_quantity(spec["q"])

    def sub(name):
        return build(spec[name], qhook, path + (name,))

    if k == "Count":
        tr = spec.get("transform")
        if tr == "sq":
            return hg.Count(eval("lambda w: w * w", {}))  # noqa: S307
        if tr == "half":
            return hg.Count("0.5 * w")
        return hg.Count()
    if k in ("Sum", "Average", "Deviate", "Minimize", "Maximize"):
        return getattr(hg, k)(quantity())
    if k == "Bag":
        return hg.Bag(quantity(), spec["range"])
    if k == "Bin":
        return hg.Bin(
            spec["num"], spec["low"], spec["high"], quantity(), sub("value"), sub("underflow"), sub("overflow"), sub("nanflow")
        )
    if k == "SparselyBin":
        return hg.SparselyBin(spec["binWidth"], quantity(), sub("value"), sub("nanflow"), spec["origin"])
    if k == "CentrallyBin":
        return hg.CentrallyBin(list(spec["centers"]), quantity(), sub("value"), sub("nanflow"))
    if k == "IrregularlyBin":
        return hg.IrregularlyBin(list(spec["edges"]), quantity(), sub("value"), sub("nanflow"))
    if k == "Stack":
        return hg.Stack(list(spec["thresholds"]), quantity(), sub("value"), sub("nanflow"))
    if k == "Fraction":
        return hg.Fraction(quantity(), sub("value"))
    if k == "Select":
        return hg.Select(quantity(), sub("cut"))
    if k == "Categorize":
        return hg.Categorize(quantity(), sub("value"))
    if k in ("Label", "UntypedLabel"):
        pairs = {key: build(s, qhook, path + ("pairs", key)) for key, s in spec["pairs"].items()}
        return getattr(hg, k)(**pairs)
    if k in ("Index", "Branch"):
        vals = [build(s, qhook, path + ("values", i)) for i, s in enumerate(spec["values"])]
        return getattr(hg, k)(*vals)
    raise ValueError(f"unknown primitive {k}")


def renamed(spec, named=True):
    """The same tree with every lambda quantity given a name (named=True) or every named one made anonymous: the same
    aggregator as far as merging goes (names are no structure), declared by someone else."""
    if isinstance(spec, dict):
        out = {k: renamed(v, named) for k, v in spec.items()}
        if "fl" in out:
            if named and out["fl"] in ("lambda", "lambda_kw"):
                out["fl"] = "named"
            elif not named and out["fl"] in ("named", "def", "str", "named_str"):
                out["fl"] = "lambda"
                out.pop("name", None)
        return out
    if isinstance(spec, list):
        return [renamed(v, named) for v in spec]
    return spec


def relabeled(spec):
    """The same tree with the keys of every Label / UntypedLabel given in the opposite order (Label(a=.., b=..) vs
    Label(b=.., a=..)): the two trees are the same aggregator, labelled children are matched by key, never by position."""
    if isinstance(spec, dict):
        out = {k: relabeled(v) for k, v in spec.items()}
        if spec.get("k") in ("Label", "UntypedLabel"):
            out["pairs"] = dict(reversed(list(out["pairs"].items())))
        return out
    if isinstance(spec, list):
        return [relabeled(v) for v in spec]
    return spec


def child_specs(spec):
    """Yield (slot, key, child spec) for every child position of a spec node."""
    for slot, kind in SLOTS.get(spec["k"], ()):
        if kind == "one":
            yield slot, None, spec[slot]
        elif kind == "list":
            for i, s in enumerate(spec[slot]):
                yield slot, i, s
        else:
            for key, s in spec[slot].items():
                yield slot, key, s


def walk_spec(spec, path=()):
    yield path, spec
    for slot, key, s in child_specs(spec):
        yield from walk_spec(s, path + ((slot,) if key is None else (slot, key)))


def kinds(spec):
    return sorted({s["k"] for _, s in walk_spec(spec)})


def depth(spec):
    ds = [depth(s) for _, _, s in child_specs(spec)]
    return 1 + (max(ds) if ds else 0)
