"""Realise state recipes (gen.recipes) into live aggregators."""

import os

from .common import lib
from .spec import build


def has_transform(spec):
    from .spec import walk_spec  # noqa: PLC0415

    return any(s["k"] == "Count" and s.get("transform") for _, s in walk_spec(spec))


def realize(spec, rec, qhook=None):
    hg = lib()
    h = build(spec, qhook)
    for row, w in rec.get("fills", ()):
        h.fill(row, w)
    if "merge" in rec:
        o = build(spec, qhook)
        for row, w in rec["merge"]:
            o.fill(row, w)
        h = h + o
    if "scale" in rec and not has_transform(spec):
        h = h * rec["scale"]
    if rec.get("copy"):
        h = h.copy()
    if rec.get("pickle") and not os.environ.get("VP_HG_INSTRUMENTED"):
        # (skipped under Atheris: instrumented code objects cannot be marshalled, so no library function pickles there)
        import pickle  # noqa: PLC0415

        h = pickle.loads(pickle.dumps(h))
    if rec.get("reload"):
        h = hg.Factory.fromJson(h.toJson())
    return h


def stream_of(rec):
    """All (row, weight) that contributed (unscaled)."""
    return [(r, w) for r, w in rec.get("fills", ())] + [(r, w) for r, w in rec.get("merge", ())]
