"""Locate the tree under test, import it, and reset the library's process-global state.

The tree under test is VP_REPO (default /repo).  It is put first on sys.path so that it wins over the
editable install in /venv; `lib()` asserts that the imported package really lives there, so a check always
exercises the current working tree (nothing is copied or cached).
"""

import json
import math
import os
import sys
import warnings

REPO = os.path.realpath(os.environ.get("VP_REPO", "/repo"))
VERIF = os.path.dirname(os.path.dirname(os.path.abspath(__file__)))

_lib = None


class HarnessError(Exception):
    """An error of the harness itself (exit code 2), never a property violation."""


def lib():
    """Import histogrammar from the tree under test (once) and return the module."""
    global _lib
    if _lib is None:
        if REPO not in sys.path[:1]:
            sys.path.insert(0, REPO)
        warnings.filterwarnings("ignore")
        import histogrammar  # noqa: PLC0415

        where = os.path.realpath(histogrammar.__file__)
        if not where.startswith(REPO + os.sep):
            raise HarnessError(f"histogrammar imported from {where}, expected under {REPO}")
        _lib = histogrammar
    return _lib


def hygiene():
    """Reset process-global library state at the top of every case."""
    import histogrammar.util as u  # noqa: PLC0415

    u.relativeTolerance = 0.0
    u.absoluteTolerance = 0.0


# ---------------------------------------------------------------------------------------------------------
# JSON encoding of cases: floats survive exactly (repr round-trips), non-finite floats are tagged.


def enc(x):
    """Encode a case (nested dict/list/tuple of str, bool, int, float, None) as plain JSON data."""
    if isinstance(x, bool) or x is None or isinstance(x, (str, int)):
        return x
    if isinstance(x, float):
        if math.isnan(x):
            return {"$f": "nan"}
        if math.isinf(x):
            return {"$f": "inf" if x > 0 else "-inf"}
        return x
    if isinstance(x, (list, tuple)):
        return [enc(v) for v in x]
    if isinstance(x, dict):
        return {str(k): enc(v) for k, v in x.items()}
    try:
        import numpy as np  # noqa: PLC0415

        if isinstance(x, np.generic):
            return enc(x.item())
        if isinstance(x, np.ndarray):
            return enc(x.tolist())
    except ImportError:  # pragma: no cover
        pass
    from fractions import Fraction  # noqa: PLC0415

    if isinstance(x, Fraction):
        return {"$q": f"{x.numerator}/{x.denominator}"}
    return repr(x)


def dec(x):
    if isinstance(x, dict):
        if set(x.keys()) == {"$f"}:
            return float(x["$f"])
        return {k: dec(v) for k, v in x.items()}
    if isinstance(x, list):
        return [dec(v) for v in x]
    return x


def canon(x):
    """Canonical JSON text of a case (used for hashing / distinctness)."""
    return json.dumps(enc(x), sort_keys=True, allow_nan=False)
