"""Single-point structural mutations of toJson() documents (C15).

sites(doc) enumerates, deterministically, every (path, mutation) the schema of the document admits:
  delete a required key; add an unknown key to a fixed-schema object; retype a required value to an unambiguously
  wrong JSON type; rename a type tag to an unregistered name; replace a list element by a malformed one; make an
  `entries` negative; break the header (version too new, unknown type, missing key).
Free-keyed maps (Label / Categorize / SparselyBin keys) never get an "unknown key": a new key there is a new bin.
apply(doc, site) returns the mutated deep copy.
"""

import copy

NUM, TYPENAME, NAME, STR = "num", "typename", "name", "str"

# fixed-schema fragments: required fields and optional fields
SCHEMA = {
    "Sum": ({"entries": NUM, "sum": NUM}, {"name": NAME}),
    "Average": ({"entries": NUM, "mean": NUM}, {"name": NAME}),
    "Deviate": ({"entries": NUM, "mean": NUM, "variance": NUM}, {"name": NAME}),
    "Minimize": ({"entries": NUM, "min": NUM}, {"name": NAME}),
    "Maximize": ({"entries": NUM, "max": NUM}, {"name": NAME}),
    "Bag": ({"entries": NUM, "values": ("items", "bagitem"), "range": STR}, {"name": NAME}),
    "Bin": (
        {
            "low": NUM,
            "high": NUM,
            "entries": NUM,
            "values:type": TYPENAME,
            "values": ("fraglist", "values:type"),
            "underflow:type": TYPENAME,
            "underflow": ("frag", "underflow:type"),
            "overflow:type": TYPENAME,
            "overflow": ("frag", "overflow:type"),
            "nanflow:type": TYPENAME,
            "nanflow": ("frag", "nanflow:type"),
        },
        {"name": NAME, "values:name": NAME},
    ),
    "SparselyBin": (
        {
            "binWidth": NUM,
            "entries": NUM,
            "bins:type": TYPENAME,
            "bins": ("fragmap", "bins:type", "int"),
            "nanflow:type": TYPENAME,
            "nanflow": ("frag", "nanflow:type"),
            "origin": NUM,
        },
        {"name": NAME, "bins:name": NAME},
    ),
    "CentrallyBin": (
        {"entries": NUM, "bins:type": TYPENAME, "bins": ("items", "center"), "nanflow:type": TYPENAME, "nanflow": ("frag", "nanflow:type")},
        {"name": NAME, "bins:name": NAME},
    ),
    "IrregularlyBin": (
        {"entries": NUM, "bins:type": TYPENAME, "bins": ("items", "atleast"), "nanflow:type": TYPENAME, "nanflow": ("frag", "nanflow:type")},
        {"name": NAME, "bins:name": NAME},
    ),
    "Stack": (
        {"entries": NUM, "bins:type": TYPENAME, "bins": ("items", "atleast"), "nanflow:type": TYPENAME, "nanflow": ("frag", "nanflow:type")},
        {"name": NAME, "bins:name": NAME},
    ),
    "Fraction": (
        {"entries": NUM, "sub:type": TYPENAME, "numerator": ("frag", "sub:type"), "denominator": ("frag", "sub:type")},
        {"name": NAME, "sub:name": NAME},
    ),
    "Select": ({"entries": NUM, "sub:type": TYPENAME, "data": ("frag", "sub:type")}, {"name": NAME}),
    "Categorize": ({"entries": NUM, "bins:type": TYPENAME, "bins": ("fragmap", "bins:type", "free")}, {"name": NAME, "bins:name": NAME}),
    "Label": ({"entries": NUM, "sub:type": TYPENAME, "data": ("fragmap", "sub:type", "free")}, {}),
    "UntypedLabel": ({"entries": NUM, "data": ("typedmap",)}, {}),
    "Index": ({"entries": NUM, "sub:type": TYPENAME, "data": ("fraglist", "sub:type")}, {}),
    "Branch": ({"entries": NUM, "data": ("typedlist",)}, {}),
}

WRONG_FOR_NUM = ([], {}, None, "abc", "2.5", "1e3")  # numeric-looking strings are strings: only nan / inf / -inf are numbers in disguise
WRONG_FOR_STR = (7, ["Count"])
WRONG_FOR_LIST = ({}, 7)
WRONG_FOR_MAP = ([], 7)
BAD_ITEMS = ({}, 7, None)
UNKNOWN_TYPE = "NoSuchPrimitive"
# keys to add to a fixed-schema object: an arbitrary one and keys that are legitimate in *other* objects of the format
FOREIGN_KEYS = ("unknownKey", "entries", "data", "type", "center", "atleast", "w", "v", "sub:type", "bins:type", "values", "name", "bins:name")


def _adds(out, path, allowed):
    for k in FOREIGN_KEYS:
        if k not in allowed:
            out.append((path, "add", k))


def sites(doc):
    """List of (path, op, arg).  path addresses the parent container and key/index; ops:
    del, add, set (arg = new value)."""
    lst = []
    out = _Out(lst, "@header")
    out.append(((), "set", ("version", "99.99")))
    out.append(((), "set", ("version", 7)))
    out.append(((), "set", ("type", UNKNOWN_TYPE)))
    out.append(((), "set", ("type", 7)))
    for k in ("type", "data", "version"):
        out.append(((), "del", k))
    _frag(doc["type"], doc["data"], ("data",), out)
    return lst


class _Out:
    """Appends (path, op, arg, fragment type)."""

    def __init__(self, lst, T):
        self.lst, self.T = lst, T

    def append(self, site):
        self.lst.append(site + (self.T,))


def _frag(T, f, path, out):  # noqa: PLR0912
    out = _Out(out.lst if isinstance(out, _Out) else out, T)
    if T == "Count":
        parent, key = path[:-1], path[-1]
        for w in WRONG_FOR_NUM:
            out.append((parent, "set", (key, w)))
        out.append((parent, "set", (key, -1.5)))
        return
    if T not in SCHEMA or not isinstance(f, dict):
        return
    req, _opt = SCHEMA[T]
    _adds(out, path, set(req) | set(_opt))
    for k, kind in req.items():
        if k not in f:
            continue
        out.append((path, "del", k))
        if kind == NUM:
            for w in WRONG_FOR_NUM:
                out.append((path, "set", (k, w)))
            if k == "entries":
                out.append((path, "set", (k, -1.5)))
        elif kind == TYPENAME:
            out.append((path, "set", (k, UNKNOWN_TYPE)))
            out.append((path, "set", (k, 7)))
        elif kind == STR:
            for w in WRONG_FOR_STR:
                out.append((path, "set", (k, w)))
        elif kind[0] == "frag":
            _frag(f[kind[1]], f[k], path + (k,), out)
        elif kind[0] == "fraglist":
            for w in WRONG_FOR_LIST:
                out.append((path, "set", (k, w)))
            if isinstance(f[k], list):
                for i, x in enumerate(f[k]):
                    _frag(f[kind[1]], x, path + (k, i), out)
        elif kind[0] == "fragmap":
            for w in WRONG_FOR_MAP:
                out.append((path, "set", (k, w)))
            if isinstance(f[k], dict):
                for kk, x in f[k].items():
                    _frag(f[kind[1]], x, path + (k, kk), out)
                    if kind[2] == "int":
                        out.append((path + (k,), "rename", (kk, "x" + str(kk))))
        elif kind[0] == "items":
            for w in WRONG_FOR_LIST:
                out.append((path, "set", (k, w)))
            if isinstance(f[k], list):
                for i, item in enumerate(f[k]):
                    for bad in BAD_ITEMS:
                        out.append((path + (k,), "set", (i, bad)))
                    if not isinstance(item, dict):
                        continue
                    ipath = path + (k, i)
                    _adds(out, ipath, {"w", "v"} if kind[1] == "bagitem" else {kind[1], "data"})
                    if kind[1] == "bagitem":
                        out.append((ipath, "del", "w"))
                        out.append((ipath, "del", "v"))
                        for w in WRONG_FOR_NUM:
                            out.append((ipath, "set", ("w", w)))
                        out.append((ipath, "set", ("v", {})))
                        out.append((ipath, "set", ("v", None)))
                    else:
                        field = kind[1]
                        out.append((ipath, "del", field))
                        out.append((ipath, "del", "data"))
                        for w in WRONG_FOR_NUM:
                            out.append((ipath, "set", (field, w)))
                        _frag(f["bins:type"], item["data"], ipath + ("data",), out)
        elif kind[0] in ("typedmap", "typedlist"):
            out.append((path, "set", (k, 7)))
            out.append((path, "set", (k, [] if kind[0] == "typedmap" else {})))
            entries = f[k].items() if kind[0] == "typedmap" and isinstance(f[k], dict) else enumerate(f[k]) if isinstance(f[k], list) else ()
            for kk, x in entries:
                for bad in BAD_ITEMS:
                    out.append((path + (k,), "set", (kk, bad)))
                if isinstance(x, dict):
                    ipath = path + (k, kk)
                    _adds(out, ipath, {"type", "data"})
                    out.append((ipath, "del", "type"))
                    out.append((ipath, "del", "data"))
                    out.append((ipath, "set", ("type", UNKNOWN_TYPE)))
                    out.append((ipath, "set", ("type", 7)))
                    _frag(x["type"], x["data"], ipath + ("data",), out)


def apply(doc, site):
    path, op, arg = site[:3]
    d = copy.deepcopy(doc)
    cur = d
    for p in path:
        cur = cur[p]
    if op == "del":
        del cur[arg]
    elif op == "add":
        cur[arg] = 0
    elif op == "set":
        cur[arg[0]] = copy.deepcopy(arg[1])
    elif op == "rename":
        cur[arg[1]] = cur.pop(arg[0])
    return d


def describe(site):
    path, op, arg = site[:3]
    p = "/".join(map(str, path)) or "<header>"
    if op == "set":
        return f"set {p}/{arg[0]} = {arg[1]!r}"
    if op == "rename":
        return f"rename key {p}/{arg[0]} -> {arg[1]!r}"
    return f"{op} {p}/{arg}"
