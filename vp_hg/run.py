"""Runner:  python -m vp_hg.run <Cnn> [--tier quick|thorough] [--replay FILE] [--workers N] [--examples N]

Exit codes: 0 = the property held on everything explored (known findings printed as KNOWN-FINDING lines);
1 = a violation not listed in known_findings.json (a line `VIOLATION property=<id> replay=<path>` on stdout);
2 = harness error (never reported as a violation).
"""

import argparse
import hashlib
import importlib
import json
import multiprocessing
import os
import sys
import time
import traceback

from . import findings
from .common import VERIF, HarnessError, dec, enc, hygiene, lib
from .core import MAX_SAMPLES, Collector, Violation

def lib_frame(tb):
    """Innermost traceback frame that lies inside the library under test, as (file, function) or None."""
    from .common import REPO  # noqa: PLC0415

    found = None
    root = os.path.join(REPO, "histogrammar") + os.sep
    while tb is not None:
        fn = tb.tb_frame.f_code.co_filename
        if os.path.realpath(fn).startswith(root):
            found = (os.path.relpath(os.path.realpath(fn), root), tb.tb_frame.f_code.co_name)
        tb = tb.tb_next
    return found


def checked(mod, case):
    """mod.check(case); an exception escaping from inside the library on a valid case is a violation
    (bucketed by exception type and innermost library frame); anything else is a harness error."""
    try:
        return mod.check(case)
    except Violation:
        raise
    except (KeyboardInterrupt, SystemExit):
        raise
    except BaseException as e:  # noqa: BLE001
        if type(e).__module__.startswith("hypothesis"):
            raise
        if type(e).__name__ == "NormError":
            # toJson() produced something that is not a document of the specified shape (a non-number in a numeric
            # field, a missing key): the library's output is wrong, not the harness
            raise Violation("malformed-document", f"toJson() is not a well-formed document: {e}", {"what": "document-shape"}) from None
        fr = lib_frame(e.__traceback__)
        if fr is None:
            raise
        tb = "".join(traceback.format_exception(type(e), e, e.__traceback__))[-1500:]
        raise Violation(
            "lib-exception",
            f"{type(e).__name__}: {e} (raised in histogrammar/{fr[0]}:{fr[1]})\n{tb}",
            {"exc": type(e).__name__, "file": fr[0], "func": fr[1]},
        ) from None


def run_case(mod, case, col=None):
    """Execute one case; returns info, or raises Violation (unless it is a known finding)."""
    hygiene()
    try:
        return checked(mod, case)
    except Violation as v:
        e = findings.match(mod.ID, v.kind, v.sig)
        if e is None:
            raise
        if col is not None:
            col.known[e["id"]] = col.known.get(e["id"], 0) + 1
        return {"nontrivial": False, "labels": ["known-finding:" + e["id"]]}


def default_worker_run(mod, tier, seed, examples, col):
    """Drive mod.strategy(tier) / mod.check with Hypothesis."""
    import hypothesis  # noqa: PLC0415
    from hypothesis import HealthCheck, Phase, given, settings  # noqa: PLC0415

    @hypothesis.seed(seed)
    @settings(
        max_examples=examples,
        database=None,
        deadline=None,
        derandomize=False,
        report_multiple_bugs=False,
        phases=(Phase.generate, Phase.shrink),
        suppress_health_check=[HealthCheck.too_slow, HealthCheck.data_too_large, HealthCheck.large_base_example],
    )
    @given(mod.strategy(tier))
    def prop(case):
        try:
            info = run_case(mod, case, col)
        except Violation as v:
            rec = {"case": enc(case), "kind": v.kind, "detail": v.detail, "sig": enc(v.sig)}
            if col.first_failure is None:
                col.first_failure = rec
            col.last_failure = rec
            col.failing = True
            raise
        if col.failing:
            col.shrink_evaluations += 1
        else:
            col.record(case, info)

    prop()


def _worker(args):
    modname, tier, seed, examples, idx = args
    col = Collector(idx)
    try:  # safety net: a runaway allocation must fail in the worker, not take the machine down
        import resource  # noqa: PLC0415

        resource.setrlimit(resource.RLIMIT_AS, (12 * 2**30, 12 * 2**30))
    except Exception:  # noqa: BLE001, S110
        pass
    try:  # `kill -USR1 <worker pid>` prints the worker's Python stack to stderr (diagnosing a slow case)
        import faulthandler  # noqa: PLC0415
        import signal  # noqa: PLC0415

        faulthandler.register(signal.SIGUSR1, all_threads=False)
    except Exception:  # noqa: BLE001, S110
        pass
    status, err = "ok", None
    try:
        lib()
        mod = importlib.import_module(modname)
        runner = getattr(mod, "worker_run", None)
        if runner is None:
            default_worker_run(mod, tier, seed, examples, col)
        else:
            runner(tier, seed, examples, col)
    except Violation:
        status = "violation"
    except BaseException as e:  # noqa: BLE001
        if col.last_failure is not None:
            status = "violation"
        else:
            status, err = "error", "".join(traceback.format_exception(type(e), e, e.__traceback__))[-6000:]
    out = col.export()
    out.update(status=status, error=err, worker=idx, seed=seed)
    return out


def run_fuzz(pid, seed, cfg):
    """Coverage-guided campaigns (Atheris / libFuzzer) over the same property; returns (worker-like results, info)."""
    import shutil  # noqa: PLC0415
    import subprocess  # noqa: PLC0415
    import tempfile  # noqa: PLC0415

    deps = os.path.join(VERIF, ".deps")
    env = dict(os.environ, PYTHONPATH=deps + os.pathsep + os.environ.get("PYTHONPATH", ""), PYTHONHASHSEED="0")
    probe = subprocess.run([sys.executable, "-c", "import atheris"], env=env, capture_output=True)
    if probe.returncode != 0:
        return [], {"available": False, "note": "atheris is not importable (tools/setup.sh installs it into /verif/.deps); Hypothesis only"}
    work = tempfile.mkdtemp(prefix=f"vp_fuzz_{pid}_", dir=os.path.join(VERIF, ".deps"))
    procs = []
    try:
        for i in range(cfg.get("jobs", 8)):
            d = os.path.join(work, str(i))
            os.makedirs(os.path.join(d, "corpus"))
            out = os.path.join(d, "out.json")
            cmd = [sys.executable, "-m", "vp_hg.fuzz.atheris_run", pid, out, f"-runs={cfg.get('runs', 50000)}", f"-seed={seed * 100 + i + 1}",
                   f"-max_len={cfg.get('max_len', 4096)}", "-timeout=120", f"-artifact_prefix={d}{os.sep}", os.path.join(d, "corpus")]
            procs.append((i, out, subprocess.Popen(cmd, cwd=VERIF, env=env, stdout=subprocess.DEVNULL, stderr=subprocess.DEVNULL)))
        results, evals, execs = [], 0, 0
        for i, out, pr in procs:
            try:
                pr.wait(timeout=cfg.get("timeout_s", 900))
            except subprocess.TimeoutExpired:
                pr.kill()  # a wall-clock budget hit is "inconclusive", never a violation
            if not os.path.exists(out):
                continue
            with open(out) as f:
                d = json.load(f)
            evals += d["evaluations"]
            r = {k: d.get(k) for k in ("evaluations", "shrink_evaluations", "nontrivial", "labels", "samples", "known", "excluded")}
            r.update(status="ok", error=None, worker=100 + i, seed=seed * 100 + i + 1, first_failure=None, last_failure=None)
            if d.get("violation"):
                r.update(status="violation", first_failure=d["violation"], last_failure=d["violation"])
            results.append(r)
        return results, {"available": True, "jobs": len(procs), "runs_per_job": cfg.get("runs", 50000), "cases_decoded_and_checked": evals,
                         "note": "libFuzzer bytes are decoded by Hypothesis' fuzz_one_input into the same cases as the check's strategy; coverage feedback from histogrammar/* only; empty starting corpus"}
    finally:
        shutil.rmtree(work, ignore_errors=True)


def write_replay(pid, rec, seed, tier, sub="new"):
    d = os.path.join(VERIF, "replays", sub) if sub else os.path.join(VERIF, "replays")
    os.makedirs(d, exist_ok=True)
    h = hashlib.sha1(json.dumps(rec["case"], sort_keys=True).encode()).hexdigest()[:8]  # noqa: S324
    path = os.path.join(d, f"{pid}-{rec['kind']}-{h}.json")
    with open(path, "w") as f:
        json.dump(
            {"property": pid, "kind": rec["kind"], "detail": rec["detail"], "sig": rec.get("sig", {}), "seed": seed, "tier": tier, "expect": "pass", "case": rec["case"]},
            f,
            indent=1,
            sort_keys=True,
        )
    return path


def committed_replays(pid):
    d = os.path.join(VERIF, "replays")
    if not os.path.isdir(d):
        return []
    return sorted(os.path.join(d, n) for n in os.listdir(d) if n.startswith(pid + "-") and n.endswith(".json"))


def replay_file(mod, path):
    """Re-execute one saved case without Hypothesis.  Returns (ok, message)."""
    with open(path) as f:
        rec = json.load(f)
    case = dec(rec["case"])
    hygiene()
    try:
        info = checked(mod, case)
    except Violation as v:
        return False, v
    if info and info.get("known"):  # the check reported a recorded deviation through its info
        return False, Violation("known", "", {"ids": sorted(info["known"])})
    return True, None


def write_evidence(pid, tier, seed, level, coverage, wall, violations, assumptions):
    os.makedirs(os.path.join(VERIF, "evidence"), exist_ok=True)
    doc = {
        "property_id": pid,
        "tier": tier,
        "seed": seed,
        "level": level,
        "coverage": coverage,
        "assumptions": assumptions,
        "wall_s": round(wall, 3),
        "violations": violations,
    }
    path = os.path.join(VERIF, "evidence", f"{pid}.json")
    tmp = path + ".tmp"
    with open(tmp, "w") as f:
        json.dump(doc, f, indent=1, sort_keys=True, allow_nan=False)
    os.replace(tmp, path)
    return path


def main(argv=None):  # noqa: PLR0912, PLR0915
    ap = argparse.ArgumentParser()
    ap.add_argument("pid")
    ap.add_argument("--tier", default=os.environ.get("VERIF_TIER", "quick"), choices=("quick", "thorough"))
    ap.add_argument("--replay")
    ap.add_argument("--workers", type=int)
    ap.add_argument("--examples", type=int)
    ap.add_argument("--no-evidence", action="store_true")
    a = ap.parse_args(argv)
    pid = a.pid.upper()
    seed = int(os.environ.get("VERIF_SEED", "1") or 1)
    t0 = time.time()
    try:
        lib()
        mod = importlib.import_module(f"vp_hg.checks.{pid.lower()}")
    except Exception:  # noqa: BLE001
        traceback.print_exc()
        print(f"HARNESS-ERROR property={pid} cannot import library or check")
        return 2

    if a.replay:
        try:
            ok, v = replay_file(mod, a.replay)
        except Exception:  # noqa: BLE001
            traceback.print_exc()
            print(f"HARNESS-ERROR property={pid} replay crashed")
            return 2
        if ok:
            print(f"replay passed: {a.replay}")
            return 0
        e = findings.match(pid, v.kind, v.sig)
        if v.kind == "known":
            e = next((x for x in findings.known_for(pid) if x["id"] in v.sig["ids"]), None)
        if e is not None:
            print(f"KNOWN-FINDING: property={pid} {e['what']}")
            return 0
        print(f"{v.kind}: {v.detail}")
        print(f"VIOLATION property={pid} replay={a.replay}")
        return 1

    violations = []  # (replay path, kind, detail)
    known_hits = {}
    replayed = 0
    # 1. replay tier: committed regression corpus
    for path in committed_replays(pid):
        try:
            ok, v = replay_file(mod, path)
        except Exception:  # noqa: BLE001
            traceback.print_exc()
            print(f"HARNESS-ERROR property={pid} replay {path} crashed")
            return 2
        replayed += 1
        if not ok:
            e = findings.match(pid, v.kind, v.sig)
            if v.kind == "known":
                e = next((x for x in findings.known_for(pid) if x["id"] in v.sig["ids"]), None)
            if e is not None:
                known_hits[e["id"]] = known_hits.get(e["id"], 0) + 1
            else:
                violations.append((path, v.kind, v.detail))

    # 2. generation tier
    budget = mod.BUDGET[a.tier]
    workers = a.workers or budget[0]
    examples = a.examples or budget[1]
    jobs = [(mod.__name__, a.tier, seed * 1000 + i, examples, i) for i in range(workers)]
    if workers == 1:
        results = [_worker(jobs[0])]
    else:
        ctx = multiprocessing.get_context("fork")
        with ctx.Pool(workers) as pool:
            results = pool.map(_worker, jobs, chunksize=1)

    fuzz_info = None
    if a.tier == "thorough" and getattr(mod, "FUZZ", None) and not any(r["status"] == "violation" for r in results):
        fuzz_results, fuzz_info = run_fuzz(pid, seed, mod.FUZZ)
        results += fuzz_results

    errors = [r for r in results if r["status"] == "error"]
    evaluations = sum(r["evaluations"] for r in results)
    shrink_evals = sum(r["shrink_evaluations"] for r in results)
    nontrivial = set()
    labels, excluded = {}, {}
    samples = []
    for r in results:
        nontrivial.update(r["nontrivial"])
        for k, v in r["labels"].items():
            labels[k] = labels.get(k, 0) + v
        for k, v in r["excluded"].items():
            excluded[k] = excluded.get(k, 0) + v
        for k, v in r["known"].items():
            known_hits[k] = known_hits.get(k, 0) + v
        for s in r["samples"]:
            if len(samples) < MAX_SAMPLES:
                samples.append(s)
    for r in sorted(results, key=lambda r: r["worker"]):
        if r["status"] == "violation" and r["last_failure"] is not None:
            if r["first_failure"] is not None and r["first_failure"] != r["last_failure"]:
                write_replay(pid, r["first_failure"], r["seed"], a.tier, sub="new/unshrunk")
            path = write_replay(pid, r["last_failure"], r["seed"], a.tier)
            violations.append((path, r["last_failure"]["kind"], r["last_failure"]["detail"]))

    wall = time.time() - t0
    for e in findings.known_for(pid):
        print(f"KNOWN-FINDING: property={pid} {e['what']} (hits this run: {known_hits.get(e['id'], 0)})")

    if errors and not violations:
        for r in errors:
            print(f"--- worker {r['worker']} error ---\n{r['error']}", file=sys.stderr)
        print(f"HARNESS-ERROR property={pid} {len(errors)} worker(s) failed")
        return 2

    coverage = {
        "evaluations": evaluations,
        "distinct_nontrivial": len(nontrivial),
        "rule": mod.RULE,
        "samples": samples,
        "classes": dict(sorted(labels.items())),
        "shrink_evaluations": shrink_evals,
        "replayed_regression_cases": replayed,
        "workers": workers,
        "examples_per_worker": examples,
        "excluded_by_construction": excluded,
        "known_finding_hits": known_hits,
    }
    if fuzz_info is not None:
        coverage["atheris"] = fuzz_info
    if not a.no_evidence:
        if not samples:
            coverage["samples"] = [{"note": "no non-trivial case was generated"}]
        write_evidence(pid, a.tier, seed, "exploration", coverage, wall, len(violations), getattr(mod, "ASSUMPTIONS", []))

    print(
        f"{pid} tier={a.tier} seed={seed} evaluations={evaluations} distinct_nontrivial={len(nontrivial)} "
        f"replayed={replayed} wall={wall:.1f}s violations={len(violations)}"
    )
    if violations:
        for path, kind, detail in violations:
            print(f"{kind}: {str(detail)[:2000]}")
            print(f"VIOLATION property={pid} replay={path}")
        return 1
    if len(nontrivial) < 2:
        print(f"HARNESS-ERROR property={pid} fewer than 2 distinct non-trivial cases were generated")
        return 2
    return 0


if __name__ == "__main__":
    try:
        sys.exit(main())
    except HarnessError as e:
        print(f"HARNESS-ERROR {e}")
        sys.exit(2)
