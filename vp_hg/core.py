"""Core types shared by the runner and the checks (kept out of run.py, which executes as __main__)."""

import hashlib

from .common import canon, enc

MAX_SAMPLES = 4


class Violation(Exception):
    """The property does not hold on this case."""

    def __init__(self, kind, detail, sig=None):
        super().__init__(f"{kind}: {detail}")
        self.kind = kind
        self.detail = detail
        self.sig = dict(sig or {})


def require(cond, kind, detail, sig=None):
    if not cond:
        raise Violation(kind, detail() if callable(detail) else detail, sig)


def case_hash(case):
    return hashlib.sha1(canon(case).encode()).hexdigest()[:16]  # noqa: S324


class Collector:
    """Per-worker counters; merged by the parent into the evidence file."""

    def __init__(self, pid):
        self.pid = pid
        self.evaluations = 0
        self.shrink_evaluations = 0
        self.nontrivial = set()
        self.labels = {}
        self.samples = []
        self.known = {}
        self.excluded = {}
        self.first_failure = None
        self.last_failure = None
        self.failing = False

    def label(self, name, n=1):
        self.labels[name] = self.labels.get(name, 0) + n

    def record(self, case, info):
        """info: dict(nontrivial=bool, labels=[...]) returned by check()."""
        self.evaluations += 1
        info = info or {}
        for lab in info.get("labels", ()):
            self.label(lab)
        for k, v in info.get("excluded", {}).items():
            self.excluded[k] = self.excluded.get(k, 0) + v
        for k, v in info.get("known", {}).items():
            self.known[k] = self.known.get(k, 0) + v
        if info.get("nontrivial"):
            h = case_hash(case)
            if h not in self.nontrivial:
                self.nontrivial.add(h)
                if len(self.samples) < MAX_SAMPLES:
                    self.samples.append(enc(case))

    def export(self):
        return {
            "evaluations": self.evaluations,
            "shrink_evaluations": self.shrink_evaluations,
            "nontrivial": sorted(self.nontrivial),
            "labels": self.labels,
            "samples": self.samples,
            "known": self.known,
            "excluded": self.excluded,
            "first_failure": self.first_failure,
            "last_failure": self.last_failure,
        }


