"""Property-based verification harness for histogrammar-python (see /verif/DESIGN.md)."""
