"""C13 - derived views (bin edges, centres, entries, grids, projections) agree with fill."""

import math

import numpy as np
from hypothesis import strategies as st

from .. import gen, model
from ..common import lib
from ..core import Violation, require

ID = "C13"
BUDGET = {"quick": (4, 2000), "thorough": (16, 20000)}
TECHNIQUE = "property-based testing (Hypothesis): consistency of the read accessors with each other and with a probe-fill oracle"
RULE = (
    "Generated: a Bin / SparselyBin / CentrallyBin / IrregularlyBin configuration from the dyadic, non-dyadic and "
    "large-offset families, a fill set aimed at its edges, probe values x, and sub-range queries (low, high) inside the "
    "binned domain with endpoints on edges, between edges and within rounding distance of edges; 2-D trees Bin x Bin, "
    "SparselyBin x SparselyBin, IrregularlyBin x IrregularlyBin with (x, y) data incl. out-of-range and NaN; Categorize "
    "with labels; a SparselyBin filled with +-inf besides finite values (its dense views are only probed through "
    "num_bins / bin_edges and, when small, bin_entries / bin_centers).  Oracle: full range - len(bin_edges) == num_bins + 1 == len(bin_centers) + 1 == len(bin_entries) + 1, "
    "edges non-decreasing, each centre within its edges, bin_width consistent with the edge differences, entries equal "
    "to the stored contents (gaps of sparse histograms are zeros); probe - x filled alone into an empty copy moves one "
    "slot, x lies within that bin's reported edges (bit-exact for CentrallyBin / IrregularlyBin, whose edges are the very "
    "thresholds fill compares with; rounding tolerance for the computed edges of Bin / SparselyBin) and bin_entries(xvalues=[x]) returns that "
    "slot's content; sub-range - the four accessors have mutually consistent lengths and equal one slice of the "
    "full-range arrays whose end bins contain the query endpoints (an endpoint within numpy.isclose of an edge may fall "
    "on either side); 2-D - every grid cell equals the weight a per-row reference count assigns to it, the grid total "
    "equals the in-range weight, project_on_x / project_on_y equal the marginal sums; Categorize - labels and entries "
    "enumerate exactly the bins, bin_entries(labels=...) returns contents or 0, mpv has maximal entries.  Non-trivial: "
    "a non-dyadic or offset configuration with a probe or endpoint within 3 ulps of an inner edge, or a 2-D case with "
    ">= 2 occupied cells and >= 1 out-of-range row; distinct by sha1 of the case."
)
ASSUMPTIONS = [
    "routing of fill itself is decided by C02/C05; here fill is the reference the views are compared with",
    "sub-range endpoints lie inside the binned domain and high - low exceeds 8 ulps of the edge scale (the statement's domain)",
    "a bin that spans (-inf, +inf) (IrregularlyBin without edges) has no meaningful centre and is not generated",
]


def close(a, b, scale):
    a, b = float(a), float(b)
    if math.isinf(a) or math.isinf(b):
        return a == b
    return abs(a - b) <= 1e-9 * max(1.0, scale, abs(a), abs(b))


def npclose(a, b):
    return bool(np.isclose(a, b))


# ---------------------------------------------------------------------------------------------------------
# adapters: what the specification says about bin i of each 1-D kind


class View:
    """kind-specific reference: edges of bin i, stored content of bin i, accepted bins of a value."""

    def __init__(self, kind, cfg, h):
        self.kind, self.cfg, self.h = kind, cfg, h
        if kind == "Bin":
            self.scale = max(abs(cfg["low"]), abs(cfg["high"]))
        elif kind == "SparselyBin":
            self.scale = abs(cfg["origin"]) + 1000 * cfg["binWidth"]
        elif kind == "CentrallyBin":
            self.scale = max(abs(c) for c in cfg["centers"])
        else:
            self.scale = max([abs(e) for e in cfg["edges"]] + [1.0])

    def full_range(self):
        k, h = self.kind, self.h
        if k == "Bin":
            return 0, self.cfg["num"] - 1
        if k == "SparselyBin":
            if not h.bins:
                return 0, -1
            return min(h.bins), max(h.bins)
        return 0, len(h.bins) - 1

    def edges(self, i):
        k, c = self.kind, self.cfg
        if k == "Bin":
            w = (c["high"] - c["low"]) / c["num"]
            return c["low"] + i * w, c["low"] + (i + 1) * w
        if k == "SparselyBin":
            return c["origin"] + i * c["binWidth"], c["origin"] + (i + 1) * c["binWidth"]
        if k == "CentrallyBin":
            cs = sorted(c["centers"])
            lo = -math.inf if i == 0 else (cs[i - 1] + cs[i]) / 2.0
            hi = math.inf if i == len(cs) - 1 else (cs[i] + cs[i + 1]) / 2.0
            return lo, hi
        es = [-math.inf] + list(c["edges"]) + [math.inf]
        return es[i], es[i + 1]

    def content(self, i):
        k, h = self.kind, self.h
        if k == "Bin":
            return h.values[i].entries
        if k == "SparselyBin":
            return h.bins[i].entries if i in h.bins else 0.0
        return h.bins[i][1].entries

    def accepted(self, x):
        """Set of bin indexes a datum x may be routed to (None for under/overflow/nan)."""
        k, c = self.kind, self.cfg
        if math.isnan(x):
            return None
        if k == "Bin":
            if x < c["low"] or x >= c["high"]:
                return None
            return model.bin_accepted(c["num"], c["low"], c["high"], x)[1]
        if k == "SparselyBin":
            return model.sparse_accepted(c["binWidth"], c["origin"], x)[1]
        if k == "CentrallyBin":
            return model.central_accepted(sorted(c["centers"]), x)[1]
        ths = [-math.inf] + list(c["edges"])
        return {max(i for i, t in enumerate(ths) if x >= t)}

    def endpoint_bins(self, x, upper):
        """Bins that may legitimately be the first (upper=False) / last (upper=True) bin of a sub-range ending at x."""
        acc = set(self.accepted(x) or ())
        first, last = self.full_range()
        if self.kind == "Bin":
            if x < self.cfg["low"]:
                acc = {0}
            elif x >= self.cfg["high"]:
                acc = {last}
        out = set(acc)
        for i in list(acc):
            lo, hi = self.edges(i)
            if not math.isinf(lo) and (npclose(x, lo) or npclose(lo, x)):
                out.add(i - 1)
            if not math.isinf(hi) and (npclose(x, hi) or npclose(hi, x)):
                out.add(i + 1)
        if self.kind != "SparselyBin":
            out = {i for i in out if first <= i <= last}
        return out


def build_1d(kind, cfg, value=None):
    hg = lib()
    q = eval("lambda d: d['x']", {})  # noqa: S307
    v = value or hg.Count()
    if kind == "Bin":
        return hg.Bin(cfg["num"], cfg["low"], cfg["high"], q, v)
    if kind == "SparselyBin":
        return hg.SparselyBin(cfg["binWidth"], q, v, hg.Count(), cfg["origin"])
    if kind == "CentrallyBin":
        return hg.CentrallyBin(list(cfg["centers"]), q, v)
    return hg.IrregularlyBin(list(cfg["edges"]), q, v)


def crit_1d(kind, cfg, maxidx=1000):
    spec = dict(cfg, k=kind, q={"t": "num", "col": "x"}, value={"k": "Count"}, nanflow={"k": "Count"})
    if kind == "Bin":
        spec.update(underflow={"k": "Count"}, overflow={"k": "Count"})
    vals = gen.critical_values(spec)["x"][0]
    if kind == "SparselyBin":
        # the dense views (bin_entries, bin_edges ...) materialise every index between the lowest and highest filled
        # bin (the 2-D grid every pair of them): keep the filled indexes within +-maxidx so that they stay small
        vals = [v for v in vals if abs((v - cfg["origin"]) / cfg["binWidth"]) <= maxidx]
    return vals


# ---------------------------------------------------------------------------------------------------------


def strategy(tier):
    thorough = tier == "thorough"

    @st.composite
    def one_d(draw):
        kind = draw(st.sampled_from(("Bin", "Bin", "SparselyBin", "CentrallyBin", "IrregularlyBin")))
        if kind == "Bin":
            c = draw(gen.bin_cfgs(20))
            cfg = {"num": c["num"], "low": c["low"], "high": c["high"]}
            fam = c["fam"]
        elif kind == "SparselyBin":
            c = draw(gen.sparse_cfgs())
            cfg = {"binWidth": c["binWidth"], "origin": c["origin"]}
            fam = c["fam"]
        elif kind == "CentrallyBin":
            cs = sorted(draw(gen.center_lists(5)))
            cfg = {"centers": cs}
            fam = "dyadic" if all(float(x * 8).is_integer() for x in cs) else "nondyadic"
        else:
            cfg = {"edges": draw(gen.edge_lists(4, 1))}
            fam = "dyadic" if all(float(x * 8).is_integer() for x in cfg["edges"]) else "nondyadic"
        crit = crit_1d(kind, cfg)
        vals = st.sampled_from(crit)
        n = draw(st.integers(0, 24 if thorough else 12))
        fills = [[draw(vals), draw(st.sampled_from((1.0, 1.0, 2.0, 0.5)))] for _ in range(n)]
        probes = [draw(vals) for _ in range(draw(st.integers(1, 4)))]
        queries = [[draw(vals), draw(vals)] for _ in range(draw(st.integers(1, 4)))]
        more = [[draw(vals), draw(st.sampled_from((1.0, 2.0, 0.5)))] for _ in range(draw(st.integers(0, 6)))]
        return {"mode": "1d", "kind": kind, "cfg": cfg, "fam": fam, "fills": fills, "probes": probes, "queries": queries,
                "more": more, "mutation": draw(st.sampled_from(("iadd", "iadd", "fill", "fillnp", "add", "none")))}

    @st.composite
    def two_d(draw):
        kind = draw(st.sampled_from(("Bin", "SparselyBin", "IrregularlyBin")))
        if kind == "Bin":
            cx, cy = draw(gen.bin_cfgs(6)), draw(gen.bin_cfgs(6))
            cfg = {"x": {k: cx[k] for k in ("num", "low", "high")}, "y": {k: cy[k] for k in ("num", "low", "high")}}
        elif kind == "SparselyBin":
            cx, cy = draw(gen.sparse_cfgs()), draw(gen.sparse_cfgs())
            cfg = {"x": {k: cx[k] for k in ("binWidth", "origin")}, "y": {k: cy[k] for k in ("binWidth", "origin")}}
        else:
            cfg = {"x": {"edges": draw(gen.edge_lists(4, 2))}, "y": {"edges": draw(gen.edge_lists(4, 2))}}
        vx = st.sampled_from([v for v in crit_1d(kind, cfg["x"], 12) if abs(v) < 1e15] + [float("nan")])
        vy = st.sampled_from([v for v in crit_1d(kind, cfg["y"], 12) if abs(v) < 1e15] + [float("nan")])
        n = draw(st.integers(0, 20 if thorough else 10))
        fills = [[draw(vx), draw(vy), draw(st.sampled_from((1.0, 1.0, 2.0, 0.5)))] for _ in range(n)]
        more = [[draw(vx), draw(vy), draw(st.sampled_from((1.0, 2.0, 0.5)))] for _ in range(draw(st.integers(0, 6)))]
        return {"mode": "2d", "kind": kind, "cfg": cfg, "fills": fills, "more": more, "mutation": draw(st.sampled_from(("iadd", "fill", "none")))}

    @st.composite
    def cat(draw):
        n = draw(st.integers(0, 12))
        fills = [[draw(st.sampled_from(("a", "b", "c", "dd", ""))), draw(st.sampled_from((1.0, 2.0, 0.5)))] for _ in range(n)]
        return {"mode": "cat", "fills": fills, "labels": draw(st.lists(st.sampled_from(("a", "b", "c", "dd", "", "zz")), max_size=4))}

    @st.composite
    def sparse_inf(draw):
        # +-inf is a value like any other to fill (it lands in a sentinel bin of a SparselyBin); the dense views of
        # such a histogram are checked separately because they cannot be enumerated
        c = draw(gen.sparse_cfgs())
        cfg = {"binWidth": c["binWidth"], "origin": c["origin"]}
        vals = st.sampled_from(crit_1d("SparselyBin", cfg))
        fills = [[draw(vals), 1.0] for _ in range(draw(st.integers(0, 6)))]
        infs = draw(st.lists(st.sampled_from((float("inf"), float("-inf"))), min_size=1, max_size=3))
        return {"mode": "sparse-inf", "kind": "SparselyBin", "cfg": cfg, "fam": c["fam"], "fills": fills, "infs": infs, "numpy": draw(st.booleans())}

    return st.one_of(one_d(), one_d(), one_d(), one_d(), one_d(), one_d(), two_d(), two_d(), cat(), cat(), sparse_inf())


# ---------------------------------------------------------------------------------------------------------


def check_sparse_inf(case):
    """A SparselyBin that was filled with +-inf (sentinel bins): the full-range views must still be usable."""
    cfg = case["cfg"]
    h = build_1d("SparselyBin", cfg)
    for x, w in case["fills"]:
        h.fill({"x": x}, w)
    if case["numpy"]:
        h.fill.numpy({"x": np.array(case["infs"], dtype=np.float64)})
    else:
        for x in case["infs"]:
            h.fill({"x": x}, 1.0)
    sig = {"kind": "SparselyBin", "datum": "inf"}
    what = f"SparselyBin {cfg} filled with {[x for x, _ in case['fills']]} and {case['infs']}"
    # the infinite data are retrievable by value
    for x in set(case["infs"]):
        got = h.bin_entries(xvalues=[x])
        require(len(got) == 1 and got[0] == float(case["infs"].count(x)), "xvalues-wrong", f"{what}: bin_entries(xvalues=[{x!r}]) = {list(got)}", dict(sig, accessor="bin_entries(xvalues)"))
    try:
        edg = h.bin_edges()
        n = h.num_bins()
    except Exception as e:  # noqa: BLE001
        raise Violation("sparse-infinite-datum-views", f"{what}: bin_edges() / num_bins() raised {type(e).__name__}: {e} (num_bins() = {_safe_num_bins(h)})", dict(sig, accessor="bin_edges")) from None
    span = int(max(h.bins)) - int(min(h.bins)) + 1  # in Python ints: numpy.int64 indexes (fill.numpy) wrap around
    require(n == span or n <= 10**7, "sparse-infinite-datum-views", f"{what}: num_bins() = {n} but the filled indexes span {span}", dict(sig, accessor="num_bins"))
    require(span <= 10**7 and n <= 10**7, "sparse-infinite-datum-views", f"{what}: num_bins() = {n}: the dense views (bin_entries, bin_centers, mpv) enumerate that many bins", dict(sig, accessor="num_bins"))
    try:
        ent, cen = h.bin_entries(), h.bin_centers()
    except Exception as e:  # noqa: BLE001
        raise Violation("sparse-infinite-datum-views", f"{what}: bin_entries() / bin_centers() raised {type(e).__name__}: {e}", dict(sig, accessor="bin_entries")) from None
    # (one root cause - the sentinel bins take part in the dense views - so one kind for every inconsistency here)
    require(len(edg) == n + 1 and len(ent) == n and len(cen) == n, "sparse-infinite-datum-views", f"{what}: lengths of edges / entries / centres are {len(edg)} / {len(ent)} / {len(cen)} for num_bins() = {n}", dict(sig, accessor="lengths"))
    require(all(a <= b for a, b in zip(edg, edg[1:])), "sparse-infinite-datum-views", f"{what}: bin_edges() is not non-decreasing", dict(sig, accessor="bin_edges"))
    filled = sum(w for _, w in case["fills"])
    require(sum(ent) in (filled, filled + len(case["infs"])), "sparse-infinite-datum-views", f"{what}: bin_entries() sums to {sum(ent)}", dict(sig, accessor="bin_entries"))
    return {"nontrivial": bool(case["fills"]), "labels": ["mode:sparse-inf", "kind:SparselyBin", "fam:" + case["fam"]]}


def _safe_num_bins(h):
    try:
        return h.num_bins()
    except Exception as e:  # noqa: BLE001
        return f"<{type(e).__name__}>"


def check_1d(case):
    """The views are checked on the filled histogram, then again on the SAME object after a mutation (a += other
    histogram, further fills row-wise or vectorised, or replaced by h + other): a derived view must never describe
    an earlier state."""
    kind, cfg = case["kind"], case["cfg"]
    h = build_1d(kind, cfg)
    for x, w in case["fills"]:
        h.fill({"x": x}, w)
    out = views_1d(case, h, "after the fills")
    mutation = case.get("mutation", "none")
    if mutation != "none" and case.get("more"):
        if mutation in ("iadd", "add"):
            g = build_1d(kind, cfg)
            for x, w in case["more"]:
                g.fill({"x": x}, w)
            if mutation == "iadd":
                h += g
            else:
                h = h + g
        elif mutation == "fill":
            for x, w in case["more"]:
                h.fill({"x": x}, w)
        else:
            h.fill.numpy({"x": np.array([x for x, _ in case["more"]], dtype=np.float64)}, np.array([w for _, w in case["more"]], dtype=np.float64))
        out2 = views_1d(case, h, f"after the fills and then {mutation}")
        out = {"nontrivial": out["nontrivial"] or out2["nontrivial"], "labels": out["labels"] + ["mutation:" + mutation]}
    return out


def views_1d(case, h, when):  # noqa: PLR0912, PLR0915
    kind, cfg = case["kind"], case["cfg"]
    v = View(kind, cfg, h)
    sig = {"kind": kind}
    cfg = dict(cfg, _state=when)  # shown in every message
    first, last = v.full_range()
    nfull = last - first + 1
    interesting = False

    if kind == "SparselyBin" and not h.bins:
        return {"nontrivial": False, "labels": ["mode:1d", "kind:" + kind, "empty-sparse"]}

    # ---- full range
    n = h.num_bins()
    ent, edg, cen = np.asarray(h.bin_entries()), np.asarray(h.bin_edges()), np.asarray(h.bin_centers())
    require(n == nfull, "full-num-bins", f"{kind} {cfg}: num_bins() = {n}, the histogram has {nfull} bins", sig)
    require(len(ent) == n, "full-entries-length", f"{kind} {cfg}: len(bin_entries()) = {len(ent)} but num_bins() = {n}", dict(sig, accessor="bin_entries"))
    require(len(edg) == n + 1, "full-edges-length", f"{kind} {cfg}: len(bin_edges()) = {len(edg)} but num_bins() = {n}", dict(sig, accessor="bin_edges"))
    require(len(cen) == n, "full-centers-length", f"{kind} {cfg}: len(bin_centers()) = {len(cen)} but num_bins() = {n}", dict(sig, accessor="bin_centers"))
    require(all(a <= b for a, b in zip(edg, edg[1:])), "edges-not-monotone", f"{kind} {cfg}: bin_edges() is not non-decreasing: {edg}", sig)
    # CentrallyBin / IrregularlyBin edges are the very numbers fill compares against (midpoints (a+b)/2, given
    # thresholds): reported edges must equal them bit for bit, otherwise a datum within an ulp of an edge is reported
    # in a bin other than the one it was filled into.  Bin / SparselyBin edges are computed (linspace vs. floor
    # arithmetic), so only closeness can be demanded there.
    same = (lambda a, b, _s: float(a) == float(b)) if kind in ("CentrallyBin", "IrregularlyBin") else close
    for j in range(n):
        i = first + j
        lo, hi = v.edges(i)
        require(same(edg[j], lo, v.scale) and same(edg[j + 1], hi, v.scale), "full-edges-wrong", f"{kind} {cfg}: bin {i} has edges ({edg[j]!r}, {edg[j + 1]!r}), fill uses ({lo!r}, {hi!r})", sig)
        if not (math.isinf(edg[j]) and math.isinf(edg[j + 1])):
            tol = 1e-9 * max(1.0, v.scale)
            require(edg[j] - tol <= cen[j] <= edg[j + 1] + tol, "centre-outside-bin", f"{kind} {cfg}: centre {cen[j]!r} of bin {i} is outside its edges ({edg[j]!r}, {edg[j + 1]!r})", sig)
        require(ent[j] == v.content(i), "full-entries-wrong", f"{kind} {cfg}: bin_entries()[{j}] = {ent[j]!r} but bin {i} holds {v.content(i)!r}", sig)
    if kind in ("Bin", "SparselyBin"):
        bw = h.bin_width()
        for j in range(n):
            require(close(edg[j + 1] - edg[j], bw, v.scale), "bin-width-inconsistent", f"{kind} {cfg}: bin_width() = {bw!r} but edges differ by {edg[j + 1] - edg[j]!r}", sig)
    elif kind == "IrregularlyBin":
        bw = np.asarray(h.bin_width())
        fin = [e for e in edg if not math.isinf(e)]
        require(len(bw) == max(0, len(fin) - 1) and all(close(b, y - x, v.scale) for b, x, y in zip(bw, fin, fin[1:])), "bin-width-inconsistent", f"IrregularlyBin {cfg}: bin_width() = {bw} for finite edges {fin}", sig)
    if h.entries > 0 and any(e > 0 for e in ent):
        mpv = h.mpv
        best = max(ent)
        j = [k for k in range(n) if close(cen[k], mpv, v.scale) or (cen[k] == mpv)]
        require(j and any(ent[k] == best for k in j), "mpv-not-maximal", f"{kind} {cfg}: mpv = {mpv!r} is not the centre of a bin with maximal entries ({list(ent)})", sig)

    # ---- probes
    for x in case["probes"]:
        acc = v.accepted(x)
        probe = h.zero()
        probe.fill({"x": x}, 1.0)
        pv = View(kind, cfg, probe)
        if kind == "SparselyBin":
            moved = [i for i in probe.bins if probe.bins[i].entries == 1.0]
        else:
            moved = [i for i in range(0, pv.full_range()[1] + 1) if pv.content(i) == 1.0]
        if acc is None:
            require(not moved, "probe-out-of-range-binned", f"{kind} {cfg}: {x!r} is outside the binned domain but landed in bin {moved}", sig)
            if kind == "Bin":
                got = h.bin_entries(xvalues=[x])
                require(len(got) == 1 and got[0] == 0.0, "xvalues-wrong", f"Bin {cfg}: bin_entries(xvalues=[{x!r}]) = {got} for an out-of-range value", dict(sig, accessor="bin_entries(xvalues)"))
            continue
        require(len(moved) == 1, "probe-not-one-bin", f"{kind} {cfg}: filling {x!r} alone moved bins {moved}", sig)
        i = moved[0]
        lo, hi = v.edges(i)
        tol = 16 * 2.0**-52 * max(abs(x), abs(lo) if not math.isinf(lo) else 0.0, abs(hi) if not math.isinf(hi) else 0.0, v.scale if kind in ("Bin", "SparselyBin") else 0.0)
        require(lo - tol <= x < hi + tol or (x == hi and math.isinf(hi)), "probe-outside-reported-edges", f"{kind} {cfg}: {x!r} was filled into bin {i} whose edges are ({lo!r}, {hi!r})", sig)
        if first <= i <= last or kind == "SparselyBin":
            got = h.bin_entries(xvalues=[x])
            require(len(got) == 1 and got[0] == v.content(i), "xvalues-wrong", f"{kind} {cfg}: bin_entries(xvalues=[{x!r}]) = {list(got)}, but the bin it is filled into holds {v.content(i)!r}", dict(sig, accessor="bin_entries(xvalues)"))
        if case["fam"] != "dyadic" and (abs(x - lo) <= 4 * tol or abs(x - hi) <= 4 * tol):
            interesting = True

    # ---- sub-range queries
    for a, b in case["queries"]:
        lo_q, hi_q = min(a, b), max(a, b)
        if math.isnan(lo_q) or math.isnan(hi_q) or math.isinf(lo_q) or math.isinf(hi_q):
            continue
        if not hi_q - lo_q > 8 * 2.0**-52 * max(1.0, v.scale, abs(lo_q), abs(hi_q)):
            continue
        flo, fhi = v.edges(first)[0], v.edges(last)[1]
        if kind in ("Bin", "SparselyBin") and not (flo <= lo_q and hi_q <= fhi):
            continue  # outside the binned domain
        A0, A1 = v.endpoint_bins(lo_q, False), v.endpoint_bins(hi_q, True)
        # an upper endpoint exactly on (or isclose to) the left edge of a bin belongs to the bin below
        n = h.num_bins(lo_q, hi_q)
        ent = np.asarray(h.bin_entries(lo_q, hi_q))
        edg = np.asarray(h.bin_edges(lo_q, hi_q))
        cen = np.asarray(h.bin_centers(lo_q, hi_q))
        what = f"{kind} {cfg} sub-range ({lo_q!r}, {hi_q!r})"
        qsig = dict(sig, query="sub-range")
        require(len(ent) == n, "sub-entries-length", f"{what}: len(bin_entries) = {len(ent)} but num_bins = {n}", dict(qsig, accessor="bin_entries"))
        require(len(cen) == n, "sub-centers-length", f"{what}: len(bin_centers) = {len(cen)} but num_bins = {n}", dict(qsig, accessor="bin_centers"))
        require(len(edg) == n + 1, "sub-edges-length", f"{what}: len(bin_edges) = {len(edg)} but num_bins = {n}", dict(qsig, accessor="bin_edges"))
        cands = [(i0, i1) for i0 in sorted(A0) for i1 in sorted(A1) if i1 - i0 + 1 == n]
        require(bool(cands) or n <= 0, "sub-range-wrong-bins", f"{what}: num_bins = {n}; the first bin may be one of {sorted(A0)}, the last one of {sorted(A1)}", qsig)
        ok = n <= 0
        for i0, i1 in cands:
            good = True
            for j, i in enumerate(range(i0, i1 + 1)):
                lo, hi = v.edges(i)
                if not (ent[j] == v.content(i) and same(edg[j], lo, v.scale) and same(edg[j + 1], hi, v.scale)):
                    good = False
                    break
                if kind != "CentrallyBin" and not (math.isinf(lo) or math.isinf(hi)) and not close(cen[j], (lo + hi) / 2.0, v.scale):
                    good = False
                    break
                if kind == "CentrallyBin" and not close(cen[j], sorted(cfg["centers"])[i], v.scale):
                    good = False
                    break
            if good:
                ok = True
                break
        require(ok, "sub-range-not-a-slice", f"{what}: entries {list(ent)}, edges {list(edg)}, centres {list(cen)} are not the slice of the full-range arrays for any admissible (first, last) in {cands}", qsig)
        if case["fam"] != "dyadic":
            interesting = True
    return {"nontrivial": interesting, "labels": ["mode:1d", "kind:" + kind, "fam:" + case["fam"]]}


def slot_1d(kind, cfg, x):
    """Reference slot of x on one axis: an int bin index, or None when out of range / NaN."""
    if math.isnan(x):
        return None
    if kind == "Bin":
        if x < cfg["low"] or x >= cfg["high"]:
            return None
        return model.bin_index(cfg["num"], cfg["low"], cfg["high"], x)
    if kind == "SparselyBin":
        return model.sparse_index(cfg["binWidth"], cfg["origin"], x)
    ths = [-math.inf] + list(cfg["edges"])
    return max(i for i, t in enumerate(ths) if x >= t)


def make_2d(kind, cfg):
    hg = lib()
    qx = eval("lambda d: d['x']", {})  # noqa: S307
    qy = eval("lambda d: d['y']", {})  # noqa: S307
    cx, cy = cfg["x"], cfg["y"]
    if kind == "Bin":
        return hg.Bin(cx["num"], cx["low"], cx["high"], qx, hg.Bin(cy["num"], cy["low"], cy["high"], qy))
    if kind == "SparselyBin":
        return hg.SparselyBin(cx["binWidth"], qx, hg.SparselyBin(cy["binWidth"], qy, hg.Count(), hg.Count(), cy["origin"]), hg.Count(), cx["origin"])
    return hg.IrregularlyBin(list(cx["edges"]), qx, hg.IrregularlyBin(list(cy["edges"]), qy))


class Ref2d:
    """Per-row reference counts of a 2-D histogram."""

    def __init__(self, kind, cfg):
        self.kind, self.cfg = kind, cfg
        self.cells, self.irr_x, self.irr_y, self.outside = {}, {}, {}, 0

    def add(self, x, y, w):
        kind, cx, cy = self.kind, self.cfg["x"], self.cfg["y"]
        i, j = slot_1d(kind, cx, x), slot_1d(kind, cy, y)
        if kind == "IrregularlyBin" and i is not None and j is not None:
            # the unbounded first / last bins are ordinary bins of an IrregularlyBin: its projections marginalise
            # over all of them (only NaN rows, which sit in nanflow, are left out)
            self.irr_x[i] = self.irr_x.get(i, 0.0) + w
            self.irr_y[j] = self.irr_y.get(j, 0.0) + w
        if kind == "IrregularlyBin":
            # the 2-D views cut the unbounded first and last bins of both axes
            nx, ny = len(cx["edges"]) + 1, len(cy["edges"]) + 1
            if i is not None and (i == 0 or i == nx - 1):
                i = None
            if j is not None and (j == 0 or j == ny - 1):
                j = None
        if i is None or j is None:
            self.outside += 1
            return
        self.cells[(i, j)] = self.cells.get((i, j), 0.0) + w


def check_2d(case):
    """As check_1d: the 2-D views are checked, the same object is mutated (+= / further fills), and checked again."""
    kind, cfg = case["kind"], case["cfg"]
    h = make_2d(kind, cfg)
    ref = Ref2d(kind, cfg)
    for x, y, w in case["fills"]:
        h.fill({"x": x, "y": y}, w)
        ref.add(x, y, w)
    out = views_2d(kind, cfg, h, ref, "after the fills")
    mutation = case.get("mutation", "none")
    if mutation != "none" and case.get("more"):
        if mutation == "iadd":
            g = make_2d(kind, cfg)
            for x, y, w in case["more"]:
                g.fill({"x": x, "y": y}, w)
            h += g
        else:
            for x, y, w in case["more"]:
                h.fill({"x": x, "y": y}, w)
        for x, y, w in case["more"]:
            ref.add(x, y, w)
        out2 = views_2d(kind, cfg, h, ref, f"after the fills and then {mutation}")
        out = {"nontrivial": out["nontrivial"] or out2["nontrivial"], "labels": out["labels"] + ["mutation:" + mutation]}
    return out


def views_2d(kind, cfg, h, ref, when):  # noqa: PLR0912, PLR0915
    cx, cy = cfg["x"], cfg["y"]
    cells, outside, irr_x, irr_y = ref.cells, ref.outside, ref.irr_x, ref.irr_y
    sig = {"kind": kind, "view": "2d"}
    what = f"{kind}x{kind} {cfg} ({when})"
    if kind == "SparselyBin" and not h.bins:
        return {"nontrivial": False, "labels": ["mode:2d", "kind:" + kind, "empty"]}
    if kind == "SparselyBin" and not any(b.bins for b in h.bins.values()):
        return {"nontrivial": False, "labels": ["mode:2d", "kind:" + kind, "empty-y"]}
    xr, yr, grid = h.xy_ranges_grid()
    grid = np.asarray(grid)
    if kind == "Bin":
        x0, y0 = 0, 0
        require(grid.shape == (cy["num"], cx["num"]), "grid-shape", f"{what}: grid shape {grid.shape}", sig)
    elif kind == "SparselyBin":
        x0 = min(h.bins)
        y0 = min(j for b in h.bins.values() for j in b.bins)
    else:
        x0, y0 = 1, 1
    for (i, j), w in cells.items():
        gi, gj = j - y0, i - x0
        require(0 <= gi < grid.shape[0] and 0 <= gj < grid.shape[1], "grid-cell-missing", f"{what}: cell {(i, j)} holding {w} is outside the grid of shape {grid.shape}", sig)
        require(grid[gi, gj] == w, "grid-cell-wrong", f"{what}: grid cell for bins {(i, j)} is {grid[gi, gj]!r}, the rows routed there weigh {w!r}", sig)
    require(float(grid.sum()) == sum(cells.values()), "grid-total", f"{what}: grid sums to {float(grid.sum())!r}, the in-range weight is {sum(cells.values())!r}", sig)
    require(len(xr) == grid.shape[1] + 1 and len(yr) == grid.shape[0] + 1, "grid-ranges-length", f"{what}: {len(xr)} x-edges / {len(yr)} y-edges for a grid of shape {grid.shape}", sig)
    # projections
    px, py = h.project_on_x(), h.project_on_y()
    mx, my = {}, {}
    for (i, j), w in cells.items():
        mx[i] = mx.get(i, 0.0) + w
        my[j] = my.get(j, 0.0) + w

    def contents(p):
        if kind == "Bin":
            return {i: v.entries for i, v in enumerate(p.values) if v.entries}
        if kind == "SparselyBin":
            return {int(i): v.entries for i, v in p.bins.items() if v.entries}
        return {i: v.entries for i, (_, v) in enumerate(p.bins) if v.entries}

    if kind == "IrregularlyBin":
        mx, my = irr_x, irr_y
    require(contents(px) == mx, "projection-x", f"{what}: project_on_x gives {contents(px)}, marginal sums are {mx}", sig)
    require(contents(py) == my, "projection-y", f"{what}: project_on_y gives {contents(py)}, marginal sums are {my}", sig)
    # generic grid
    from histogrammar.plot.hist_numpy import get_2dgrid  # noqa: PLC0415

    res = get_2dgrid(h)
    require(isinstance(res, tuple) and len(res) == 3, "grid2-not-a-grid", f"{what}: get_2dgrid returned {res!r} for a two-dimensional histogram (n_dim = {h.n_dim})", sig)
    xl, yl, g2 = res
    g2 = np.asarray(g2)
    require(g2.shape == (len(yl), len(xl)), "grid2-shape", f"{what}: get_2dgrid shape {g2.shape} for {len(xl)} x / {len(yl)} y labels", sig)
    if kind != "IrregularlyBin":
        require(float(g2.sum()) == sum(cells.values()), "grid2-total", f"{what}: get_2dgrid sums to {float(g2.sum())!r}, in-range weight {sum(cells.values())!r}", sig)
    return {"nontrivial": len(cells) >= 2 and outside >= 1, "labels": ["mode:2d", "kind:" + kind]}


def check_cat(case):
    hg = lib()
    h = hg.Categorize(eval("lambda d: d['s']", {}))  # noqa: S307
    ref = {}
    for s, w in case["fills"]:
        h.fill({"s": s}, w)
        ref[s] = ref.get(s, 0.0) + w
    sig = {"kind": "Categorize"}
    labels = list(h.bin_labels())
    ent = list(h.bin_entries())
    require(sorted(labels) == sorted(ref) and len(labels) == h.n_bins, "labels-wrong", f"bin_labels() = {labels}, categories filled: {sorted(ref)}", sig)
    require(len(ent) == len(labels) and all(e == ref[lab] for e, lab in zip(ent, labels)), "cat-entries-wrong", f"bin_entries() = {ent} for labels {labels}, reference {ref}", sig)
    if case["labels"]:
        got = list(h.bin_entries(labels=case["labels"]))
        want = [ref.get(lab, 0.0) for lab in case["labels"]]
        require(got == want, "cat-entries-by-label", f"bin_entries(labels={case['labels']}) = {got}, reference {want}", sig)
    if ref:
        require(ref[str(h.mpv)] == max(ref.values()), "mpv-not-maximal", f"mpv = {h.mpv!r} but entries are {ref}", sig)
    return {"nontrivial": len(ref) >= 2, "labels": ["mode:cat"]}


def check(case):
    lib()
    try:
        if case["mode"] == "1d":
            return check_1d(case)
        if case["mode"] == "2d":
            return check_2d(case)
        if case["mode"] == "sparse-inf":
            return check_sparse_inf(case)
        return check_cat(case)
    except Violation:
        raise
