"""C02 - fill computes the specified function of the weighted multiset (reference-model oracle)."""

from hypothesis import strategies as st

from .. import gen, model, norm
from ..common import lib
from ..core import require
from ..spec import build, kinds

ID = "C02"
BUDGET = {"quick": (4, 500), "thorough": (16, 6000)}
TECHNIQUE = "property-based testing (Hypothesis) against an independent exact-rational reference model"
RULE = (
    "Generated: a tree spec over all 19 primitives, a stream of weighted rows drawn mostly from the tree's own "
    "critical values (every edge / midpoint / threshold / centre, computed two ways, +-1..3 ulps, mid-bin and far "
    "outside points, 0.0, -0.0, NaN, +-inf; categories incl. None / NaN / reserved words; weights incl. 0, negative, "
    "NaN), a permutation of the stream, and extra rows of weight <= 0 or NaN spliced in.  Oracle: normalised toJson() "
    "equals model.evaluate(spec, stream) (exact rationals; bit-exact where every partial sum is representable, "
    "rel 1e-9 otherwise; bin membership per the ambiguity zone of DESIGN 4.2); the permuted fill gives the same "
    "document; the extra non-positive rows change nothing.  Non-trivial: >= 1 positively weighted row lies on (or "
    "within rounding distance of) an edge/midpoint/threshold of a node it was routed to, or has a NaN/+-inf quantity; "
    "distinct by sha1 of the canonical case."
)
ASSUMPTIONS = [
    "the reference model (vp_hg/model.py) is a faithful reading of the Histogrammar specification",
    "toJson() exposes all aggregated content (C04 checks the serialiser itself)",
    "near non-representable edges either adjacent bin is accepted only within 8 eps of the boundary (DESIGN 4.2)",
]


@st.composite
def special_rows(draw, crit, exactish):
    """Rows for the weight <= 0 / NaN splice: half of them carry NaN / +-inf quantities (which must not leak in)."""
    row = draw(gen.rows(crit, exactish))
    if draw(st.booleans()):
        for c in gen.NUMCOLS:
            if draw(st.booleans()):
                row[c] = draw(st.sampled_from(gen.SPECIAL))
    return row


def strategy(tier):
    thorough = tier == "thorough"
    opts = gen.TreeOpts(max_depth=4 if thorough else 3, count_transforms=True, cat_cols=("s", "s", "b"))

    @st.composite
    def cases(draw):
        spec, focus = draw(gen.specs_and_focus(opts, 4))
        stream, exactish = draw(gen.streams(spec, max_rows=60 if thorough else 30, focus=focus))
        n = len(stream)
        perm = list(draw(st.permutations(list(range(n)))))
        crit = gen.critical_values(spec)
        extra = draw(
            st.lists(
                st.tuples(st.integers(0, n), special_rows(crit, exactish), st.sampled_from((0.0, 0.0, -1.0, -0.5, float("nan"), -0.0))),
                max_size=3,
            )
        )
        return {"spec": spec, "stream": [[r, w] for r, w in stream], "perm": perm, "extra": [[i, r, w] for i, r, w in extra]}

    return cases()


def check(case):
    lib()
    spec, stream = case["spec"], [(r, w) for r, w in case["stream"]]
    ref = model.evaluate(spec, stream)
    pol = norm.Policy(exact=ref.exact, scale=1.0 + ref.notes["maxabs"])

    h = build(spec)
    for row, w in stream:
        h.fill(row, w)
    d0 = norm.norm(h.toJson(), names=False)
    d = norm.diff(ref.tree, d0, pol)
    require(not d, "model-mismatch", lambda: f"reference model vs fill: {norm.fmt(d)}")

    hp = build(spec)
    for i in case["perm"]:
        hp.fill(*stream[i])
    dp = norm.diff(d0, norm.norm(hp.toJson(), names=False), pol)
    require(not dp, "order-dependence", lambda: f"permuted fill differs: {norm.fmt(dp)}")

    if case["extra"]:
        ext = list(stream)
        for i, r, w in sorted(case["extra"], key=lambda e: -e[0]):
            ext.insert(i, (r, w))
        he = build(spec)
        for row, w in ext:
            he.fill(row, w)
        de = norm.diff(d0, norm.norm(he.toJson(), names=False), norm.BITEXACT)
        require(not de, "nonpositive-weight-changed-state", lambda: f"rows with weight <= 0 / NaN changed the aggregate: {norm.fmt(de)}")

    labels = ["kind:" + k for k in kinds(spec)]
    labels.append("exact" if ref.exact else "inexact")
    for key in ("edge_hits", "nonfinite", "ambiguous"):
        if ref.notes[key]:
            labels.append(key)
    return {"nontrivial": bool(ref.notes["edge_hits"] or ref.notes["nonfinite"]), "labels": labels}
