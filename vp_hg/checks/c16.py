"""C16 - one aggregator placed at two positions of a tree is detected, not double-filled."""

import numpy as np
from hypothesis import strategies as st

from .. import gen, model, norm, walk
from ..common import canon, lib
from ..core import require
from ..spec import build, kinds, make_quantity, walk_spec
from .c03 import _qbearing, count_before_shape, make_data

ID = "C16"
BUDGET = {"quick": (4, 400), "thorough": (16, 5000)}
TECHNIQUE = "property-based testing (Hypothesis) over tree-construction programs with deliberately shared nodes; reference-model control group"
RULE = (
    "Generated: a 'keeping' skeleton (the constructors that keep the object they are given: Label, UntypedLabel, Index, "
    "Branch children and Select.cut, nested up to 3 levels) with arbitrary subtrees at its leaves, and two installing "
    "positions: siblings, cousins under different parents, an aggregator inside one sub-tree (a bin, a flow, a nanflow) and "
    "a position or nanflow slot elsewhere, a bin of a fillable template-less Categorize (value=None, bins taken over through "
    "+=) and a position elsewhere, or a node and its own ancestor (a cycle, only constructible "
    "by assigning the attribute after construction); the shared object is whatever subtree was built at the first "
    "position, installed through the constructors or assigned into a tree derived by copy / + / * / zero (filled before "
    "or not); row-wise or vectorised fill; first and repeated attempts.  Control group: the same skeletons without "
    "sharing, built so that all SparselyBin/Categorize nodes share one template object per template spec (explicitly) "
    "or the constructor's default template.  Oracle: shared => fill / fill.numpy raise ContainerException, the shallow "
    "state of every node (walked with a visited set) is unchanged, and a second attempt raises again; control => no "
    "exception and the document equals the reference model's (C02's oracle).  Non-trivial: shared cases whose two "
    "positions are not adjacent siblings, and control cases with a template shared by >= 2 sparse containers; "
    "distinct by sha1 of the case."
)
ASSUMPTIONS = [
    "sharing is only constructible through the collections and Select.cut (every other slot copies or zeroes its argument - read in the code)",
    "the reference model of C02 decides the control group",
]

KEEP = ("Label", "UntypedLabel", "Index", "Branch", "Select")


@st.composite
def skeletons(draw, depth, leaf_opts):
    """A keeping skeleton; returns a spec.  Leaves are arbitrary subtrees."""
    if depth <= 0 or draw(st.integers(0, 3)) == 0:
        return draw(gen.tree_specs(leaf_opts))
    k = draw(st.sampled_from(("UntypedLabel", "Branch", "Branch", "Select", "Label", "Index")))
    if k == "Select":
        return {"k": "Select", "q": {"t": "num", "col": "w", "fl": "lambda"}, "cut": draw(skeletons(depth - 1, leaf_opts))}
    n = draw(st.integers(2, 3))
    if k in ("Label", "Index"):
        first = draw(skeletons(depth - 1, leaf_opts))
        kids = [first] + [dict_copy(first) for _ in range(n - 1)]
    else:
        kids = [draw(skeletons(depth - 1, leaf_opts)) for _ in range(n)]
    if k in ("Label", "UntypedLabel"):
        return {"k": k, "pairs": {f"k{i}": c for i, c in enumerate(kids)}}
    return {"k": k, "values": kids}


def dict_copy(x):
    import copy  # noqa: PLC0415

    return copy.deepcopy(x)


def keep_positions(spec, path=()):
    """Paths of child slots reachable from the root through keeping constructors only."""
    out = []
    k = spec["k"]
    if k == "Select":
        out.append(path + ("cut",))
        out += keep_positions(spec["cut"], path + ("cut",))
    elif k in ("Label", "UntypedLabel"):
        for key, c in spec["pairs"].items():
            out.append(path + ("pairs", key))
            out += keep_positions(c, path + ("pairs", key))
    elif k in ("Index", "Branch"):
        for i, c in enumerate(spec["values"]):
            out.append(path + ("values", i))
            out += keep_positions(c, path + ("values", i))
    return out


def sub_at(spec, path):
    cur = spec
    for p in path:
        cur = cur[p]
    return cur


def parent_of(path):
    """Path of the keeping node that holds the child slot `path` (() is the root)."""
    path = tuple(path)
    return path[:-1] if path[-1] == "cut" else path[:-2]


def is_prefix(a, b):
    return len(a) <= len(b) and tuple(b[: len(a)]) == tuple(a)


def strategy(tier):
    thorough = tier == "thorough"
    leaf_opts = gen.TreeOpts(max_depth=3 if thorough else 2, bag_ranges=("N", "S"), flavours=("lambda", "str", "named"))

    @st.composite
    def cases(draw):
        spec = draw(skeletons(3, leaf_opts))
        if spec["k"] not in KEEP:
            spec = {"k": "Branch", "values": [spec, draw(gen.tree_specs(leaf_opts))]}
        pos = keep_positions(spec)
        mode = draw(st.sampled_from(("shared", "shared", "inner", "cycle", "control", "control", "templateless")))
        if mode == "templateless":
            # a fillable Categorize WITHOUT a value template (value=None) that took its bins over from other histograms
            # through += ; one of its bins is then installed a second time elsewhere in the tree
            cats = draw(st.lists(st.sampled_from(("a", "b", "c", "d")), min_size=2, max_size=4, unique=True))
            return {"mode": "templateless", "spec": {"k": "Count"}, "cats": cats, "merges": draw(st.integers(1, 3)),
                    "content": draw(st.sampled_from(("Count", "Sum"))), "shared_i": draw(st.integers(0, 3)),
                    "where": draw(st.sampled_from(("sibling", "cousin", "nanflow"))), "numpy": draw(st.booleans()),
                    "fill_rows": draw(st.lists(st.sampled_from(cats), min_size=1, max_size=4)), "control": draw(st.integers(0, 3)) == 0}
        case = {"spec": spec, "mode": mode, "numpy": draw(st.booleans()), "templates": draw(st.sampled_from(("default", "explicit", "separate"))),
                # a sub-tree may have been filled on its own (or unpickled) before it became part of the tree: its
                # once-only flags are then already set when the root is filled for the first time
                "prefill": draw(st.sampled_from(("none", "none", "object", "parent", "pickle"))), "prefill_at": draw(st.integers(0, 50))}
        crit = gen.critical_values(spec)
        case["rows"] = [[draw(gen.rows(crit, True, none_cats=False)), draw(st.sampled_from((1.0, 1.0, 2.0, 0.5)))] for _ in range(draw(st.integers(1, 4)))]
        if mode == "shared":
            i = draw(st.integers(0, len(pos) - 1))
            others = [p for p in pos if p != pos[i] and not is_prefix(pos[i], p) and not is_prefix(p, pos[i])]
            if not others:
                case["mode"] = "control"
            else:
                case["p1"] = list(pos[i])
                case["p2"] = list(others[draw(st.integers(0, len(others) - 1))])
                # the tree may be a derived one (copy, +, *, zero) into which the second reference is assigned afterwards
                case["install"] = draw(st.sampled_from(("ctor", "ctor", "assign")))
                case["derive"] = draw(st.sampled_from(("none", "copy", "copy", "plus", "times", "zero", "copy-filled")))
        elif mode == "inner":
            # an aggregator living INSIDE one sub-tree (a bin, a flow, a nanflow, a cut ...) is installed a second time
            # at a keeping position elsewhere, or as the nanflow of a node elsewhere
            i = draw(st.integers(0, len(pos) - 1))
            others = [p for p in pos if p != pos[i] and not is_prefix(pos[i], p) and not is_prefix(p, pos[i])]
            if not others:
                case["mode"] = "control"
            else:
                case["p1"] = list(pos[i])
                case["p2"] = list(others[draw(st.integers(0, len(others) - 1))])
                case["inner_i"] = draw(st.integers(0, 40))
                case["how"] = draw(st.sampled_from(("keep", "nanflow")))
                case["prefill"] = "none"
        elif mode == "cycle":
            # install an ancestor (or the node itself) as a child of a keeping node
            nodes = [()] + [p for p in pos if sub_at(spec, p)["k"] in KEEP]
            host = nodes[draw(st.integers(0, len(nodes) - 1))]
            ancestors = [()] + [p for p in pos if is_prefix(p, host)]
            case["host"] = list(host)
            case["ancestor"] = list(ancestors[draw(st.integers(0, len(ancestors) - 1))])
        return case

    return cases()


def obj_at(h, path):
    cur = h
    path = list(path)
    while path:
        p = path.pop(0)
        if p == "cut":
            cur = cur.cut
        else:
            key = path.pop(0)
            cur = cur.pairs[key] if p == "pairs" else cur.values[key]
    return cur


def assign_at(h, path, obj):
    """Install obj at the child slot `path` of the live tree h by plain assignment."""
    parent = obj_at(h, parent_of(path))
    if path[-1] == "cut":
        parent.cut = obj
    elif path[-2] == "pairs":
        parent.pairs[path[-1]] = obj
    else:
        vals = list(parent.values)
        vals[path[-1]] = obj
        parent.values = type(parent.values)(vals) if isinstance(parent.values, (list, tuple)) else vals
        if parent.name == "Branch":
            setattr(parent, f"i{path[-1]}", obj)


class Builder:
    """Builds a skeleton; installs the object built at p1 also at p2; shares sparse templates on request."""

    def __init__(self, share=None, templates="separate"):
        self.share = share or {}
        self.templates = templates
        self.built = {}
        self.tcache = {}
        self.shared_templates = 0

    def build(self, spec, path=()):
        hg = lib()
        if tuple(path) in self.share:
            return self.built[self.share[tuple(path)]]
        k = spec["k"]
        if k == "Select":
            obj = hg.Select(make_quantity(spec["q"]), self.build(spec["cut"], path + ("cut",)))
        elif k in ("Label", "UntypedLabel"):
            obj = getattr(hg, k)(**{key: self.build(c, path + ("pairs", key)) for key, c in spec["pairs"].items()})
        elif k in ("Index", "Branch"):
            obj = getattr(hg, k)(*[self.build(c, path + ("values", i)) for i, c in enumerate(spec["values"])])
        else:
            obj = self.leaf(spec)
        self.built[tuple(path)] = obj
        return obj

    def leaf(self, spec):
        """An arbitrary subtree; sparse containers at its top get shared / default templates on request."""
        hg = lib()
        k = spec["k"]
        if self.templates != "separate" and k in ("SparselyBin", "Categorize") and spec.get("nanflow", {"k": "Count"})["k"] == "Count":
            if self.templates == "default" and spec["value"]["k"] == "Count":
                self.shared_templates += 1
                if k == "SparselyBin":
                    return hg.SparselyBin(spec["binWidth"], make_quantity(spec["q"]), origin=spec["origin"])
                return hg.Categorize(make_quantity(spec["q"]))
            if self.templates == "explicit":
                key = canon(spec["value"])
                if key in self.tcache:
                    self.shared_templates += 1
                tmpl = self.tcache.setdefault(key, build(spec["value"]))
                if k == "SparselyBin":
                    return hg.SparselyBin(spec["binWidth"], make_quantity(spec["q"]), tmpl, hg.Count(), spec["origin"])
                return hg.Categorize(make_quantity(spec["q"]), tmpl)
        return build(spec)


def shallow_state(root):
    """id -> shallow numeric state of every node reachable from root (visited set: safe on cycles)."""
    out = {}
    for _, n in walk.walk(root, templates=True):
        st_ = {"entries": n.entries}
        for f in ("sum", "mean", "varianceTimesEntries", "min", "max"):
            if f in vars(n):
                st_[f] = repr(getattr(n, f))
        for f in ("bins", "values", "pairs"):
            v = vars(n).get(f)
            if isinstance(v, dict):
                st_[f] = sorted(map(repr, v.items())) if n.name == "Bag" else sorted(map(repr, v))
            elif isinstance(v, (list, tuple)):
                st_[f] = len(v)
        out[id(n)] = (n.name, repr(st_))
    return out


def run_templateless(case):
    hg = lib()
    from histogrammar.defs import ContainerException  # noqa: PLC0415

    q = eval("lambda d: d['s']", {})  # noqa: S307
    leaf = (lambda: hg.Count()) if case["content"] == "Count" else (lambda: hg.Sum(eval("lambda d: d['x']", {})))  # noqa: S307
    c = hg.Categorize(q, None)
    c.contentType = case["content"]
    cats = case["cats"]
    parts = [cats[i :: case["merges"]] for i in range(case["merges"])]
    for part in parts:
        src = hg.Categorize(q, leaf())
        for s_ in part:
            src.fill({"s": s_, "x": 1.0, "w": 1.0})
        c += src
    keys = list(c.bins)
    shared = c.bins[keys[case["shared_i"] % len(keys)]]
    w = eval("lambda d: d['w']", {})  # noqa: S307
    if case["control"]:
        root = hg.Branch(c, leaf())  # nothing shared: must be accepted
    elif case["where"] == "sibling":
        root = hg.Branch(c, shared)
    elif case["where"] == "cousin":
        root = hg.UntypedLabel(x=c, y=hg.Select(w, shared))
    else:
        sb = hg.SparselyBin(1.0, eval("lambda d: d['x']", {}), hg.Count())  # noqa: S307
        sb.nanflow = shared
        root = hg.Branch(c, sb)
    rows = [{"s": s_, "x": 1.0, "w": 1.0} for s_ in case["fill_rows"]]

    def attempt():
        if case["numpy"]:
            root.fill.numpy({"s": np.array([r["s"] for r in rows]), "x": np.array([r["x"] for r in rows]), "w": np.array([r["w"] for r in rows])})
        else:
            for r in rows:
                root.fill(r)

    labels = ["mode:templateless", "where:" + ("control" if case["control"] else case["where"]), "numpy" if case["numpy"] else "row"]
    if case["control"]:
        attempt()
        attempt()
        return {"nontrivial": False, "labels": labels}
    before = shallow_state(root)
    for n_attempt in (1, 2):
        raised = None
        try:
            attempt()
        except ContainerException as e:
            raised = e
        require(raised is not None, "shared-node-filled", f"a bin of a template-less Categorize (bins taken over through {case['merges']} += ) also installed as {case['where']}: attempt {n_attempt} to fill raised nothing", {"shape": "templateless"})
        after = shallow_state(root)
        changed = [f"{before[i][0]}: {before[i][1]} -> {after[i][1]}" for i in before if after.get(i) != before[i]]
        require(not changed, "shared-node-state-changed", lambda: f"template-less Categorize: state changed although fill raised: {changed[:3]}")  # noqa: B023
    return {"nontrivial": case["merges"] >= 2, "labels": labels}


def check(case):  # noqa: PLR0912, PLR0915
    hg = lib()
    from histogrammar.defs import ContainerException  # noqa: PLC0415

    if case.get("mode") == "templateless":
        return run_templateless(case)

    spec, mode = case["spec"], case["mode"]
    rows = [(r, w) for r, w in case["rows"]]
    labels = ["mode:" + mode, "numpy" if case["numpy"] else "row"] + ["kind:" + k for k in kinds(spec)]

    def attempt(h):
        if case["numpy"]:
            data = make_data("dict", [r for r, _ in rows])
            h.fill.numpy(data, np.array([w for _, w in rows], dtype=np.float64))
        else:
            for r, w in rows:
                h.fill(r, w)

    if mode == "control":
        b = Builder(templates=case["templates"])
        h = b.build(spec)
        numpy_ok = _qbearing(spec)
        if case["numpy"] and not numpy_ok:
            case = dict(case, numpy=False)
        if case.get("prefill", "none") != "none":
            pos = keep_positions(spec)
            sub = b.built[pos[case["prefill_at"] % len(pos)]] if pos else h
            for r, w in rows:
                sub.fill(r, w)
            e0 = h.entries
            attempt(h)  # must be accepted
            attempt(h)
            want = e0 + 2 * sum(w for _, w in rows if w > 0)
            require(h.entries == want, "control-entries", f"a tree with a pre-filled sub-tree holds entries {h.entries!r} after two fills, expected {want!r}")
            return {"nontrivial": False, "labels": labels + ["control-prefilled"]}
        attempt(h)  # any exception here is a violation (a tree without shared nodes must never be rejected)
        ref = model.evaluate(spec, rows)
        pol = norm.Policy(exact=ref.exact, scale=1.0 + ref.notes["maxabs"])
        got = norm.strip_empty_types(norm.norm(h.toJson(), names=False, drop_zero=True))
        want = norm.strip_empty_types(_drop_zero(ref.tree))
        d = norm.diff(want, got, pol)
        d = [x for x in d if not _sum_nan_numpy(x, case)]
        require(not d, "control-differs-from-model", lambda: f"unshared tree filled {'vectorised' if case['numpy'] else 'row-wise'} differs from the reference model: {norm.fmt(d)}")
        # a second fill keeps working (the once-only flag must not break anything)
        attempt(h)
        if b.shared_templates:
            labels.append("shared-template")
        return {"nontrivial": b.shared_templates >= 1 and case["templates"] != "separate", "labels": labels + ["templates:" + case["templates"]]}

    if mode == "shared":
        p1, p2 = tuple(case["p1"]), tuple(case["p2"])
        first, second = sorted((p1, p2), key=lambda p: keep_positions(spec).index(p))
        assign = case.get("install") == "assign"
        b = Builder(share={} if assign else {second: first})
        try:
            h = b.build(spec)
        except (ContainerException, ValueError):
            # a typed collection (Label/Index) refused the shared child because its type differs from its siblings
            return {"nontrivial": False, "labels": labels + ["not-constructible"]}
        adjacent = first[:-1] == second[:-1]
        what = f"the object at {'/'.join(map(str, first))} also installed at {'/'.join(map(str, second))}"
        pre = case.get("prefill", "none")
        if assign:
            pre = "none"
            how = case.get("derive", "none")
            if how == "copy-filled":
                attempt(h)
                h = h.copy()
            elif how == "copy":
                h = h.copy()
            elif how == "plus":
                h = h + h.zero()
            elif how == "zero":
                h = h.zero()
            elif how == "times" and not any(s_["k"] == "Count" and s_.get("transform") for _, s_ in walk_spec(spec)):
                h = h * 2.0
            assign_at(h, second, obj_at(h, first))
            what += f" by assignment (tree derived by: {how})"
            labels += ["install:assign", "derive:" + how]
        if pre == "object":
            for r, w in rows:
                b.built[first].fill(r, w)
            what += " (the shared object was filled on its own before)"
        elif pre == "parent" and parent_of(first) and not is_prefix(parent_of(first), second):
            for r, w in rows:
                b.built[parent_of(first)].fill(r, w)
            what += f" (its parent {'/'.join(map(str, parent_of(first)))} was filled on its own before)"
        elif pre == "pickle":
            import pickle  # noqa: PLC0415

            filled = b.built[first]
            for r, w in rows:
                filled.fill(r, w)
            h = pickle.loads(pickle.dumps(h))  # pickling keeps the flags; sharing inside one pickle is preserved
            what += " (the tree was unpickled after the shared object had been filled on its own)"
    elif mode == "inner":
        b = Builder()
        h = b.build(spec)
        p1, p2 = tuple(case["p1"]), tuple(case["p2"])
        inner = [(p_, n_) for p_, n_ in walk.walk(obj_at(h, p1))][1:]
        if not inner:
            return {"nontrivial": False, "labels": labels + ["no-inner-node"]}
        ip, c = inner[case["inner_i"] % len(inner)]
        hosts = [n_ for _, n_ in walk.walk(obj_at(h, p2)) if "nanflow" in vars(n_)] if case["how"] == "nanflow" else []
        if hosts:
            hosts[0].nanflow = c
            what = f"the {c.name} at {'/'.join(map(str, p1 + ip))} also installed as the nanflow of a {hosts[0].name} under {'/'.join(map(str, p2))}"
        else:
            assign_at(h, p2, c)
            what = f"the {c.name} at {'/'.join(map(str, p1 + ip))} also installed at {'/'.join(map(str, p2))}"
        adjacent = False
        labels.append("inner:" + c.name)
    else:
        b = Builder()
        h = b.build(spec)
        host = b.built[tuple(case["host"])]
        anc = b.built[tuple(case["ancestor"])]
        if host.name == "Select":
            host.cut = anc
        elif host.name in ("Label", "UntypedLabel"):
            host.pairs["cyc"] = anc
        else:
            host.values = tuple(host.values) + (anc,)
        adjacent = False
        what = f"ancestor {'/'.join(map(str, case['ancestor'])) or '<root>'} installed as a child of {'/'.join(map(str, case['host'])) or '<root>'} (cycle)"
        if host.name in ("Label", "Index") and anc.name != host.values[0].name:
            pass  # assigned after construction: the typed-collection constructor check does not apply

    before = shallow_state(h)
    for n_attempt in (1, 2):
        raised = None
        try:
            attempt(h)
        except ContainerException as e:
            raised = e
        except RecursionError as e:
            require(False, "shared-node-recursion", f"{what}: fill died with RecursionError instead of ContainerException ({str(e)[:80]})", {"shape": mode})
        require(raised is not None, "shared-node-filled", f"{what}: attempt {n_attempt} to fill ({'vectorised' if case['numpy'] else 'row-wise'}) raised nothing", {"shape": mode})
        after = shallow_state(h)
        changed = [f"{before[i][0]}: {before[i][1]} -> {after[i][1]}" for i in before if after.get(i) != before[i]]
        require(not changed, "shared-node-state-changed", lambda: f"{what}: state changed although fill raised: {changed[:3]}")  # noqa: B023
    return {"nontrivial": not adjacent, "labels": labels}


def _drop_zero(t):
    if isinstance(t, dict):
        out = {k: _drop_zero(v) for k, v in t.items()}
        if out.get("T") in ("SparselyBin", "Categorize"):
            out["bins"] = {k: v for k, v in out["bins"].items() if v["entries"] != 0}
        return out
    if isinstance(t, list):
        return [_drop_zero(v) for v in t]
    return t


def _sum_nan_numpy(d, case):
    """The known C03 finding (Sum.fill.numpy skips NaN) is not this property's business."""
    p, a, b = d
    return bool(case["numpy"] and p and p[-1] == "sum" and isinstance(a, float) and a != a)
