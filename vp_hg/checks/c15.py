"""C15 - malformed or foreign JSON is rejected, never loaded as a corrupted aggregator (mutation fuzzing)."""

import copy
import json

from hypothesis import strategies as st

from .. import gen, jsonmut, norm, states
from ..common import lib
from ..core import require
from ..spec import kinds
from .c04 import jdiff, split_known_names, split_known_variance

ID = "C15"
BUDGET = {"quick": (4, 2500), "thorough": (16, 25000)}
FUZZ = {"jobs": 8, "runs": 40000, "max_len": 4096, "timeout_s": 600}
TECHNIQUE = "grammar-based mutation fuzzing (Hypothesis; thorough tier also coverage-guided via Atheris) with a must-reject oracle"
RULE = (
    "Generated: a valid document (tree spec + fills -> toJson(), so the grammar is the library's own output) and one "
    "structural mutation at a uniformly chosen position among all positions the document's schema admits: delete a "
    "required key; add an unknown key to a fixed-schema object (never to the free-keyed maps of Label / Categorize / "
    "SparselyBin); retype a required value to an unambiguously wrong JSON type; rename a type tag to an unregistered "
    "name; replace a list element of bins / values / data by a malformed one; a non-integer SparselyBin key; a negative "
    "entries; a version newer in major and minor; a missing / retyped header field.  The document is passed as a dict "
    "or as a JSON string.  Oracle: the mutated document raises (any Exception) each of the three times it is offered "
    "(twice by the generated route, once by the other: rejection must not depend on what the loader saw before); the "
    "unmutated one loads and re-serialises identically.  Not asserted (ambiguous by the code's documented conventions): JSON booleans where a "
    "number is expected, extra keys in the three-key header, version strings version.compatible accepts, and the "
    "strings nan/inf/-inf in numeric fields.  Non-trivial: the mutation position is at depth >= 1 (inside a nested "
    "fragment or list item); distinct by sha1 of (case, mutation)."
)
ASSUMPTIONS = [
    "a document is malformed iff it violates the schema in vp_hg/jsonmut.py, which transcribes the keys each fromJsonFragment requires",
    "any exception class counts as rejection",
]


def strategy(tier):
    thorough = tier == "thorough"
    opts = gen.TreeOpts(max_depth=4 if thorough else 3, count_transforms=False)

    @st.composite
    def cases(draw):
        spec, focus = draw(gen.specs_and_focus(opts, 10))
        rec = draw(gen.recipes(spec, max_rows=8, reload_ok=False, focus=focus, inf_weights=True))
        return {"spec": spec, "state": rec, "site": draw(st.integers(0, 10**6)), "as_string": draw(st.booleans()),
                "prefer": draw(st.sampled_from((None, None, None, None, "typetag", "container", "negative")))}

    return cases()


def check(case):
    hg = lib()
    spec = case["spec"]
    h = states.realize(spec, case["state"])
    doc = json.loads(json.dumps(h.toJson(), allow_nan=False))
    r = hg.Factory.fromJson(json.dumps(doc) if case["as_string"] else doc)
    _, other = split_known_names(jdiff(doc, json.loads(json.dumps(r.toJson(), allow_nan=False))))
    _, other = split_known_variance(other, doc)  # (C04's known finding, not this property's business)
    require(not other, "valid-document-changed", lambda: f"a document produced by toJson() re-serialises differently: {other[:4]}")

    ss = jsonmut.sites(doc)
    prefer = case.get("prefer")
    if prefer:
        # (type tags and child containers are few among the sites of a document: a seventh of the cases each mutate one, another seventh make one fragment's count negative)
        if prefer == "typetag":
            sub = [x for x in ss if x[1] == "set" and isinstance(x[2], (list, tuple)) and x[2][1] == jsonmut.UNKNOWN_TYPE]
        elif prefer == "negative":  # one site per fragment: its count made negative
            sub = [x for x in ss if x[1] == "set" and isinstance(x[2], (list, tuple)) and isinstance(x[2][1], float) and x[2][1] < 0]
        else:  # "container": the list / map that holds the children is replaced as a whole
            sub = [x for x in ss if x[1] == "set" and isinstance(x[2], (list, tuple)) and x[2][0] in ("data", "bins", "values") and not isinstance(x[0][-1] if x[0] else None, int)]
        ss = sub or ss
    site = ss[case["site"] % len(ss)]
    bad = jsonmut.apply(doc, site)
    path, op, arg, T = site
    field = arg[0] if op in ("set", "rename") else arg
    newval = type(arg[1]).__name__ if op == "set" else None
    sig = {"ftype": T, "op": op, "field": str(field) if not isinstance(field, int) else "@item", "new": newval}
    # the same malformed document is offered three times (twice by the generated route, once by the other one): a
    # rejection must not depend on what the loader saw before, in particular not on having just rejected this document
    for attempt, as_string in enumerate((case["as_string"], case["as_string"], not case["as_string"]), 1):
        accepted = None
        try:
            accepted = hg.Factory.fromJson(json.dumps(bad) if as_string else copy.deepcopy(bad))
        except Exception:  # noqa: BLE001, S110  (any exception class is a rejection)
            pass
        if accepted is not None:
            try:
                shown = json.dumps(accepted.toJson())[:300]
            except Exception as e:  # noqa: BLE001
                shown = f"<toJson raised {type(e).__name__}>"
            require(
                False,
                "accepted-malformed",
                f"malformed document accepted at attempt {attempt} ({'string' if as_string else 'dict'} route; {jsonmut.describe(site)} in a {T} fragment); loaded as {shown}",
                dict(sig, attempt=attempt),
            )

    depth = sum(1 for p in path if p in ("values", "bins", "data", "underflow", "overflow", "nanflow", "numerator", "denominator"))
    labels = ["ftype:" + T, "op:" + op] + ["kind:" + k for k in kinds(spec)]
    return {"nontrivial": depth >= 2 or (depth >= 1 and len(path) >= 2), "labels": labels}
