"""C07 - in-place merge (+=) agrees with pure merge (+): differential + aliasing."""

import operator

from hypothesis import strategies as st

from .. import gen, norm, states, walk
from ..common import lib
from ..core import require
from ..spec import kinds, relabeled, walk_spec

ID = "C07"
BUDGET = {"quick": (4, 400), "thorough": (16, 5000)}
TECHNIQUE = "property-based differential testing (Hypothesis): a += b vs a + b, plus identity-graph aliasing detection"
RULE = (
    "Generated: a tree spec, two compatible reachable states a and b (each from fills, optional merge / scaling / "
    "copy; empty sides; disjoint and overlapping sparse key sets; b optionally built with its Label keys in the "
    "opposite order and / or declared with plain Count() where a has Count(transform); b optionally an immutable JSON reload, which is what "
    "fill.sparksql merges with `self += Factory.fromJson(...)`), and a continuation of further fills of a and of b.  "
    "In an eighth of the cases the right operand is a itself (a += a must equal a + a).  Oracle: ref = a + b first; `a += b` returns a itself; a's document equals ref's bit for bit; b's document is "
    "unchanged; the sets of fillable-node / container identities of a and b are disjoint; after the continuation a "
    "equals ref given the same extra fills and b equals a twin of b given b's extra fills.  Non-trivial: both sides "
    "non-empty, >= 1 sparse key / bag value present on exactly one side, and the continuation fills b - or a non-empty "
    "a += a case; distinct by "
    "sha1 of the case."
)
ASSUMPTIONS = [
    "toJson() exposes all aggregated content; + itself is checked by C01",
    "the JVM path of fill.sparksql is emulated by its single merge call (a += Factory.fromJson(doc))",
]


def strategy(tier):
    thorough = tier == "thorough"
    opts = gen.TreeOpts(max_depth=4 if thorough else 3, count_transforms=True)
    topts = gen.TreeOpts(max_depth=4 if thorough else 3, count_transforms=True, transform_odds=2, count_bias=5)

    @st.composite
    def cases(draw):
        spec, focus = draw(gen.specs_and_focus(topts if draw(st.integers(0, 3)) == 0 else opts, 6))
        if draw(st.integers(0, 5)) == 0:
            # sparse containers whose value template is a Count with a transform: bins taken over from b must follow
            # a's declaration (b may well be declared with plain counts, or come back from JSON)
            spec = draw(gen.with_transform_templates(spec))
        ra = draw(gen.recipes(spec, max_rows=12, reload_ok=True, focus=focus))
        rb = draw(gen.recipes(spec, max_rows=12, reload_ok=True, focus=focus))
        xa, _ = draw(gen.streams(spec, max_rows=5, focus=focus))
        xb, _ = draw(gen.streams(spec, max_rows=5, focus=focus))
        # b may come from a tree whose Label keys were given in the opposite order (same aggregator: children are matched by key)
        b_relabel = draw(st.integers(0, 2)) == 0
        # ... or declared with plain Count() where a has Count(transform): what comes back from JSON looks like that
        b_plain = draw(st.integers(0, 2)) == 0
        return {"spec": spec, "a": ra, "b": rb, "more_a": [[r, w] for r, w in xa], "more_b": [[r, w] for r, w in xb], "b_relabel": b_relabel, "b_plain": b_plain,
                # the same object on both sides: a += a must equal a + a
                "b_is_a": draw(st.integers(0, 7)) == 0}

    return cases()


def plain_counts(spec):
    """The same tree declared with plain Count() everywhere (mergeable with the original: a transform is not content)."""
    if isinstance(spec, dict):
        return {k: plain_counts(v) for k, v in spec.items() if not (spec.get("k") == "Count" and k == "transform")}
    if isinstance(spec, list):
        return [plain_counts(v) for v in spec]
    return spec


def doc(h):
    return norm.norm(h.toJson())


def check(case):
    lib()
    spec = case["spec"]
    a = states.realize(spec, case["a"])
    spec_b = relabeled(spec) if case.get("b_relabel") else spec
    if case.get("b_plain"):
        spec_b = plain_counts(spec_b)
    b = states.realize(spec_b, case["b"])
    da0, db0 = doc(a), doc(b)
    ref = a + b
    dref = doc(ref)
    require(norm.same(da0, doc(a), norm.BITEXACT) and norm.same(db0, doc(b), norm.BITEXACT), "plus-mutated-operand", "a + b changed an operand")

    if case.get("b_is_a"):
        ref2 = a + a
        d2 = doc(ref2)
        r = operator.iadd(a, a)
        require(r is a, "iadd-not-self", f"a += a returned {type(r).__name__} which is not a")
        d = norm.diff(d2, doc(a), norm.BITEXACT)
        require(not d, "iadd-self-differs-from-add", lambda: f"a += a vs a + a: {norm.fmt(d)}", {"rhs": "self"})
        walk.require_views(a, "a after a += a")
        labels = ["kind:" + k for k in kinds(spec)] + ["rhs-is-lhs"]
        return {"nontrivial": bool(da0["entries"] > 0), "labels": labels}
    r = operator.iadd(a, b)
    require(r is a, "iadd-not-self", f"a += b returned {type(r).__name__} which is not a")
    walk.require_views(a, "a after a += b")
    walk.require_views(ref, "a + b")
    d = norm.diff(dref, doc(a), norm.BITEXACT)
    require(not d, "iadd-differs-from-add", lambda: f"a += b vs a + b: {norm.fmt(d)}")
    # the library's own == looks at more than the document (what the quantities are, not only what they are called)
    require((a == ref) is True and (ref == a) is True, "iadd-not-equal-to-add", "a += b and a + b have the same document but do not compare equal")
    d = norm.diff(db0, doc(b), norm.BITEXACT)
    require(not d, "iadd-mutated-rhs", lambda: f"b changed by a += b: {norm.fmt(d)}")
    sh = walk.identity_set(a) & walk.identity_set(b)
    require(not sh, "iadd-aliases-rhs", lambda: f"a and b share mutable state after a += b: {walk.shared(a, b)[:4]}")

    # continuation
    b_mutable = not case["b"].get("reload")
    if not case["a"].get("reload"):  # an immutable left operand can be merged into, but not filled
        # b's own records come again with another weight: they land in exactly the bins / categories a took over from b
        again = [(row, 0.5) for row, w in states.stream_of(case["b"])[:6] if w == w and w > 0]
        for row, w in [(r_, w_) for r_, w_ in case["more_a"]] + again:
            a.fill(row, w)
            ref.fill(row, w)
    else:
        # ... and stays what it was: a += b and a + b react the same way to a further record (both refuse it, or both
        # take it and agree afterwards) - merging a fillable b into it does not hand b's fill rule over
        rows = [r_ for r_, _ in case["more_a"]][:2] or [{"x": 0.0, "y": 0.0, "z": 0.0, "w": 1.0, "s": "a", "t": "a", "b": False}]
        for row in rows:
            outcomes = []
            for target in (ref, a):
                try:
                    target.fill(row, 1.0)
                    outcomes.append("took it")
                except Exception as e:  # noqa: BLE001 - the two reactions are compared, whatever they are
                    outcomes.append("raised " + type(e).__name__)
            require(outcomes[0] == outcomes[1], "iadd-changed-fillability", f"a reloaded a after a += b {outcomes[1]} when filled, a + b {outcomes[0]}")
    if b_mutable:
        twin = states.realize(spec_b, case["b"])
        for row, w in case["more_b"]:
            b.fill(row, w)
            twin.fill(row, w)
        d = norm.diff(doc(twin), doc(b), norm.BITEXACT)
        require(not d, "leak-into-rhs", lambda: f"b after its own further fills differs from its twin: {norm.fmt(d)}")
    d = norm.diff(doc(ref), doc(a), norm.BITEXACT)
    require(not d, "leak-into-lhs", lambda: f"a after further fills of a and b differs from (a+b) given the same fills: {norm.fmt(d)}")

    ka, kb = walk.keysets(da0), walk.keysets(db0)
    one_sided = any(ka.get(p) != kb.get(p) for p in set(ka) | set(kb))
    filled_b = b_mutable and any(w == w and w > 0 for _, w in case["more_b"])
    nontrivial = da0["entries"] > 0 and db0["entries"] > 0 and one_sided and filled_b
    labels = ["kind:" + k for k in kinds(spec)]
    if case["b"].get("reload"):
        labels.append("rhs-reloaded")
    if da0["entries"] == 0 or db0["entries"] == 0:
        labels.append("empty-side")
    if one_sided:
        labels.append("one-sided-key")
    return {"nontrivial": bool(nontrivial), "labels": labels}
