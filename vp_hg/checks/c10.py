"""C10 - incompatible aggregators are never merged silently (negative testing)."""

import operator

from hypothesis import strategies as st

from .. import gen, norm, walk
from ..common import lib
from ..core import Violation, require
from ..spec import build, kinds

ID = "C10"
BUDGET = {"quick": (4, 400), "thorough": (16, 5000)}
TECHNIQUE = "property-based negative testing (Hypothesis): single-aspect structural variants must refuse to merge"
RULE = (
    "Generated: a tree spec A and a variant B differing in exactly one structural aspect at a random depth (primitive "
    "type incl. look-alikes Stack/IrregularlyBin, Label/UntypedLabel, Index/Branch, Average/Deviate, "
    "Minimize/Maximize, Fraction/Select; Bin num/low/high; binWidth/origin; centres; thresholds; Bag range; label "
    "key sets; collection sizes; the type of any child incl. flows and the content type of sparse containers with "
    "empty / disjoint / overlapping keys), both filled to reachable states (same or different streams, possibly "
    "empty), both operand orders, + and +=.  Oracle: the operation raises and the normalised documents of both "
    "operands are identical before and after; compatible control pairs (A vs a second build of A) must not raise and "
    "must leave the right operand untouched.  Non-trivial: an incompatible pair whose difference is at depth >= 1 or "
    "is a parameter rather than the root type; distinct by sha1 of the case."
)
ASSUMPTIONS = [
    "the exception class is not fixed by the statement: any Exception counts as a rejection",
    "toJson() exposes all content, so 'operands unchanged' is decided on documents",
]


def strategy(tier):
    thorough = tier == "thorough"
    opts = gen.TreeOpts(max_depth=4 if thorough else 3, count_transforms=False)

    @st.composite
    def cases(draw):
        spec, focus = draw(gen.specs_and_focus(opts, 8))
        sa, _ = draw(gen.streams(spec, max_rows=10, focus=focus))
        control = draw(st.integers(0, 5)) == 0
        variant = None if control else draw(gen.variant_of(spec))
        same = draw(st.booleans())
        if same:
            sb = sa
        else:
            sb, _ = draw(gen.streams(variant["spec"] if variant else spec, max_rows=10, focus=focus))
        return {
            "spec": spec,
            "variant": variant,
            "sa": [[r, w] for r, w in sa],
            "sb": [[r, w] for r, w in sb],
            "swap": draw(st.booleans()),
            "op": draw(st.sampled_from(("+", "+="))),
        }

    return cases()


def doc(h):
    return norm.norm(h.toJson())


def fill(h, stream):
    for r, w in stream:
        h.fill(r, w)
    return h


def check(case):
    lib()
    spec, v = case["spec"], case["variant"]
    a = fill(build(spec), case["sa"])
    b = fill(build(v["spec"] if v else spec), case["sb"])
    left, right = (b, a) if case["swap"] else (a, b)
    dl, dr = doc(left), doc(right)
    op = operator.add if case["op"] == "+" else operator.iadd
    labels = ["op:" + case["op"]] + ["kind:" + k for k in kinds(spec)]

    if v is None:
        res = op(left, right)  # an exception here is a violation (lib-exception)
        require(norm.same(dr, doc(right), norm.BITEXACT), "control-mutated-rhs", "a compatible merge changed its right operand")
        if case["op"] == "+":
            require(norm.same(dl, doc(left), norm.BITEXACT), "control-mutated-lhs", "a + b changed its left operand")
        require(doc(res)["entries"] == dl["entries"] + dr["entries"], "control-entries", "entries of a compatible merge is not the sum")
        return {"nontrivial": False, "labels": labels + ["control"]}

    labels.append("variant:" + v["desc"])
    raised = None
    try:
        op(left, right)
    except Exception as e:  # noqa: BLE001  (the statement does not fix the class)
        raised = e
    nested = len(v["path"]) >= 1 or ":" in v["desc"]  # a changed child slot is a mismatch one level below the node
    sig = {"variant": v["desc"].split(".")[0].split("->")[0].split(":")[0], "op": case["op"], "nested": nested}
    # The difference must be observable in BOTH operands: a sparse container's template is instantiated once per
    # existing bin, possibly never, and an operand that never instantiated the differing node is indistinguishable
    # (document, ==) from one built with the other spec.  A changed node *type* shows in its parent's "bins:type"
    # as soon as the parent exists; a changed parameter only in an instance of the node itself.
    typechange = "->" in v["desc"] and ":" not in v["desc"]
    where = v["path"][:-1] if typechange and v["path"] else v["path"]
    if typechange and v["path"] and isinstance(v["path"][-1], (int,)) or (typechange and len(v["path"]) >= 2 and v["path"][-2] in ("pairs", "values")):
        where = v["path"][:-2]
    realised = bool(walk.instances(a, spec, where)) and bool(walk.instances(b, v["spec"], where))
    if not realised:
        labels.append("unrealised-template")
        if raised is None:
            return {"nontrivial": False, "labels": labels}
    require(raised is not None, "silent-merge", f"{case['op']} of trees differing by [{v['desc']}] at {'/'.join(map(str, v['path'])) or '<root>'} returned a result instead of raising", sig)
    d_r = norm.diff(dr, doc(right), norm.BITEXACT)
    require(not d_r, "rejected-merge-mutated-rhs", lambda: f"rejected {case['op']} ({v['desc']}) changed the right operand: {norm.fmt(d_r)}", sig)
    d_l = norm.diff(dl, doc(left), norm.BITEXACT)
    if d_l:
        if case["op"] == "+=" and nested:
            raise Violation(
                "iadd-partial-mutation",
                f"a += b was rejected ({type(raised).__name__}) because of a nested mismatch [{v['desc']}] but a was already partly merged: {norm.fmt(d_l)}",
                {"op": "+=", "nested": True, "changed": "left"},
            )
        require(False, "rejected-merge-mutated-lhs", f"rejected {case['op']} ({v['desc']}) changed the left operand: {norm.fmt(d_l)}", sig)
    param = "->" not in v["desc"]
    return {"nontrivial": bool(nested or param), "labels": labels + ["depth>=1" if nested else "root"]}
