"""C10 - incompatible aggregators are never merged silently (negative testing)."""

import operator

from hypothesis import strategies as st

from .. import gen, norm, walk
from ..common import lib
from ..core import Violation, require
from ..spec import build, kinds

ID = "C10"
BUDGET = {"quick": (4, 400), "thorough": (16, 5000)}
TECHNIQUE = "property-based negative testing (Hypothesis): single-aspect structural variants must refuse to merge"
RULE = (
    "Generated: a tree spec A and a variant B differing in exactly one structural aspect at a random depth (primitive "
    "type incl. look-alikes Stack/IrregularlyBin, Label/UntypedLabel, Index/Branch, Average/Deviate, "
    "Minimize/Maximize, Fraction/Select; Bin num/low/high; binWidth/origin; centres; thresholds - each by a gross amount "
    "or by a relative 1e-9; Bag range; label "
    "key sets; collection sizes; the type of any child incl. flows and the content type of sparse containers with "
    "empty / disjoint / overlapping keys), both filled to reachable states (same or different streams, possibly "
    "empty; optionally taken through copy / pickle / JSON reload / zero() / * 0), both operand orders, + and +=, with the process-global comparison tolerances of histogrammar.util at 0, "
    "1e-6 or 1e-3 (they are for ==, not for merge compatibility).  Oracle: the operation raises and the normalised documents of both "
    "operands are identical before and after; compatible control pairs (A vs a second build of A) must not raise and "
    "must leave the right operand untouched.  Non-trivial: an incompatible pair whose difference is at depth >= 1 or "
    "is a parameter rather than the root type; distinct by sha1 of the case."
)
ASSUMPTIONS = [
    "the exception class is not fixed by the statement: any Exception counts as a rejection",
    "toJson() exposes all content, so 'operands unchanged' is decided on documents",
]


def strategy(tier):
    thorough = tier == "thorough"
    opts = gen.TreeOpts(max_depth=4 if thorough else 3, count_transforms=False)

    @st.composite
    def cases(draw):
        spec, focus = draw(gen.specs_and_focus(opts, 8))
        sa, _ = draw(gen.streams(spec, max_rows=10, focus=focus))
        control = draw(st.integers(0, 5)) == 0
        variants = []
        if not control:
            for _ in range(draw(st.integers(1, 4))):
                v = draw(gen.variant_of(spec))
                if v is not None and all(v["desc"] != u["desc"] or v["path"] != u["path"] for u in variants):
                    variants.append(v)
        same = draw(st.booleans())
        if same:
            sb = sa
        else:
            sb, _ = draw(gen.streams(spec, max_rows=10, focus=focus))
        # the process-global comparison tolerances (histogrammar.util) are for ==, never for merge compatibility
        tol = draw(st.sampled_from((0.0, 0.0, 1e-6, 1e-3)))
        dets = ("none", "none", "none", "copy", "copy", "plus-zero", "pickle", "reload", "zeroed", "times0")
        detours = [draw(st.sampled_from(dets)), draw(st.sampled_from(dets))]
        return {"spec": spec, "variants": variants, "sa": [[r, w] for r, w in sa], "sb": [[r, w] for r, w in sb], "tol": tol, "detours": detours}

    return cases()


def doc(h):
    return norm.norm(h.toJson())


def fill(h, stream):
    for r, w in stream:
        h.fill(r, w)
    return h


STRUCT_PARAMS = ("num", "low", "high", "binWidth", "origin", "centers", "edges", "thresholds", "range", "transform")


def parent_path(path):
    path = tuple(path)
    if len(path) >= 2 and path[-2] in ("pairs", "values"):
        return path[:-2]
    return path[:-1]


def first_difference(a, b, path=()):
    """(spec path of the first node at which two specs differ, True iff they differ in primitive type there)."""
    from ..spec import SLOTS  # noqa: PLC0415

    if a["k"] != b["k"]:
        return path, True
    if any(a.get(p) != b.get(p) for p in STRUCT_PARAMS):
        return path, False
    for slot, kind in SLOTS.get(a["k"], ()):
        if kind == "one":
            r = first_difference(a[slot], b[slot], path + (slot,))
            if r is not None:
                return r
        else:
            ka = list(a[slot]) if kind == "map" else list(range(len(a[slot])))
            kb = list(b[slot]) if kind == "map" else list(range(len(b[slot])))
            if sorted(map(str, ka)) != sorted(map(str, kb)):
                return path, False
            for key in ka:
                r = first_difference(a[slot][key], b[slot][key], path + (slot, key))
                if r is not None:
                    return r
    return None if path else ((), False)


def check(case):
    """Every drawn variant is tried with + and +=, in both operand orders, on freshly built operands."""
    lib()
    spec = case["spec"]
    variants = case.get("variants")
    if variants is None:  # replay files of the first version: one variant, one op, one order
        variants = [case["variant"]] if case.get("variant") else []
        combos = [(case["op"], case["swap"])]
    else:
        combos = [("+", False), ("+", True), ("+=", False), ("+=", True)]
    labels = ["kind:" + k for k in kinds(spec)]
    known = None
    nontrivial = False
    import histogrammar.util as hutil  # noqa: PLC0415

    tol = case.get("tol", 0.0)
    if tol:
        labels.append("tolerance-set")
    try:
        hutil.relativeTolerance = hutil.absoluteTolerance = tol
        for v in variants or [None]:
            for opname, swap in combos:
                try:
                    info = check_one(spec, v, case["sa"], case["sb"], opname, swap, case.get("detours", ("none", "none")))
                except Violation as e:
                    if e.kind in ("iadd-partial-mutation", "templateless-nested-sparse"):
                        known = known or e  # recorded deviation: keep checking the other combinations
                        continue
                    raise
                nontrivial = nontrivial or info["nontrivial"]
                labels += [x for x in info["labels"] if x not in labels]
    finally:
        hutil.relativeTolerance = hutil.absoluteTolerance = 0.0
    info = {"nontrivial": nontrivial, "labels": labels}
    if known is not None:
        from .. import findings  # noqa: PLC0415

        e = findings.match(ID, known.kind, known.sig)
        if e is None:
            raise known
        # a recorded deviation: report the hit through the info (the other combinations of this case were checked too)
        info["known"] = {e["id"]: 1}
        info["labels"] = labels + ["known-finding:" + e["id"]]
    return info


def detoured(h, how):
    """The same state reached through a content-preserving detour (every reachable state counts)."""
    if how == "copy":
        return h.copy()
    if how == "plus-zero":
        return h.zero() + h
    if how == "pickle":
        import pickle  # noqa: PLC0415

        return pickle.loads(pickle.dumps(h))
    if how == "reload":
        return lib().Factory.fromJson(h.toJson())
    if how == "zeroed":
        return h.zero()
    if how == "times0":
        return h * 0.0
    return h


def paired_instances(left, right, spec_l, spec_r, dpath):
    """For a template-less (reloaded) left operand: is there a pair (node of left, node of right) at the differing
    spec position that the merge actually brings together?  Children are paired position by position / key by key;
    a bin that only the right operand has is paired with an existing bin of the same left container (what fix 596a378
    compares it with; that comparison reaches one sparse level deep only - known finding c10-templateless-nested-sparse)."""
    pairs = [(left, right, spec_l, spec_r)]
    path = list(dpath)
    i = 0
    while i < len(path):
        slot = path[i]
        nxt = []
        step = 1
        for lo, ro, sl, sr in pairs:
            k = sl["k"]
            if k in ("Label", "UntypedLabel"):
                key = path[i + 1]
                step = 2
                if key in lo.pairs and key in ro.pairs:
                    nxt.append((lo.pairs[key], ro.pairs[key], sl["pairs"][key], sr["pairs"][key]))
            elif k in ("Index", "Branch"):
                j_ = path[i + 1]
                step = 2
                if j_ < len(lo.values) and j_ < len(ro.values):
                    nxt.append((lo.values[j_], ro.values[j_], sl["values"][j_], sr["values"][j_]))
            elif slot in ("underflow", "overflow", "nanflow", "cut"):
                nxt.append((getattr(lo, slot), getattr(ro, slot), sl[slot], sr[slot]))
            elif slot == "value":
                if k == "Bin":
                    nxt += [(a_, b_, sl["value"], sr["value"]) for a_, b_ in zip(lo.values, ro.values)]
                elif k in ("CentrallyBin", "IrregularlyBin", "Stack"):
                    nxt += [(a_[1], b_[1], sl["value"], sr["value"]) for a_, b_ in zip(lo.bins, ro.bins)]
                elif k == "Fraction":
                    nxt += [(lo.numerator, ro.numerator, sl["value"], sr["value"]), (lo.denominator, ro.denominator, sl["value"], sr["value"])]
                elif k in ("SparselyBin", "Categorize"):
                    for key, rb in ro.bins.items():
                        if key in lo.bins:
                            nxt.append((lo.bins[key], rb, sl["value"], sr["value"]))
                        elif lo.bins:
                            nxt.append((next(iter(lo.bins.values())), rb, sl["value"], sr["value"]))
        pairs = nxt
        if not pairs:
            return False
        i += step
    return bool(pairs)


def check_one(spec, v, sa, sb, opname, swap, detours=("none", "none")):
    a = detoured(fill(build(spec), sa), detours[0])
    b = detoured(fill(build(v["spec"] if v else spec), sb), detours[1])
    left, right = (b, a) if swap else (a, b)
    dl, dr = doc(left), doc(right)
    op = operator.add if opname == "+" else operator.iadd
    labels = ["op:" + opname]
    case = {"op": opname}

    if v is None:
        res = op(left, right)  # an exception here is a violation (lib-exception)
        require(norm.same(dr, doc(right), norm.BITEXACT), "control-mutated-rhs", "a compatible merge changed its right operand")
        if case["op"] == "+":
            require(norm.same(dl, doc(left), norm.BITEXACT), "control-mutated-lhs", "a + b changed its left operand")
        require(doc(res)["entries"] == dl["entries"] + dr["entries"], "control-entries", "entries of a compatible merge is not the sum")
        return {"nontrivial": False, "labels": labels + ["control"]}

    labels.append("variant:" + v["desc"])
    # (what is realised in the operands is read BEFORE the operation: a successful += creates instances)
    dpath0, kind_differs0 = first_difference(spec, v["spec"])
    where0 = parent_path(dpath0) if kind_differs0 and dpath0 else dpath0
    ia, ib = bool(walk.instances(a, spec, where0)), bool(walk.instances(b, v["spec"], where0))
    # ... or in the right operand and in the LEFT operand's value template: a live sparse container checks every bin it
    # takes over against its template (`template.zero() + bin`), also while it has no bin of its own yet
    spec_l, spec_r = (v["spec"], spec) if swap else (spec, v["spec"])
    realised = (ia and ib) or (bool(walk.instances(right, spec_r, where0)) and bool(walk.instances(left, spec_l, where0, templates=True)))
    left_how0 = detours[1] if swap else detours[0]
    if realised and left_how0 == "reload":
        # a reloaded left operand has no templates: only nodes that the merge actually brings together can be compared
        # (an empty template-less container knows nothing about the structure of bins it does not have)
        realised = paired_instances(left, right, spec_l, spec_r, where0)
    raised = None
    try:
        op(left, right)
    except Exception as e:  # noqa: BLE001  (the statement does not fix the class)
        raised = e
    # Where do the two specs first differ?  (Walking down from the root while primitive type and own parameters agree:
    # e.g. Select(Select(X)) vs Select(X) differ one level BELOW the root although the variant was applied at it.)
    dpath, kind_differs = first_difference(spec, v["spec"])
    nested = len(dpath) >= 1
    sig = {"variant": v["desc"].split(".")[0].split("->")[0].split(":")[0], "op": case["op"], "nested": nested}
    # how many sparse containers (SparselyBin / Categorize value slots) lie above the differing node, and whether the
    # LEFT operand is a JSON reload (template-less): known finding c10-templateless-nested-sparse is recognised by these
    node, levels = spec, 0
    for step in dpath:
        if isinstance(node, dict) and node.get("k") in ("SparselyBin", "Categorize") and step == "value":
            levels += 1
        node = node[step] if isinstance(node, (dict, list)) else node
    left_how = detours[1] if swap else detours[0]
    if raised is None and realised and left_how == "reload" and levels >= 2:
        raise Violation(
            "templateless-nested-sparse",
            f"{case['op']} with a JSON-reloaded left operand took over a bin whose structure differs [{v['desc']}] two sparse levels down without raising",
            {"left": "reloaded", "sparse_levels": ">=2", "raised": False},
        )
    # The difference must be observable in BOTH operands: a sparse container's template is instantiated once per
    # existing bin, possibly never, and an operand that never instantiated the differing node is indistinguishable
    # (document, ==) from one built with the other spec.  A different node *type* shows in its parent's "bins:type" as
    # soon as the parent exists; different parameters only in an instance of the node itself.
    if not realised:
        labels.append("unrealised-template")
        if raised is None:
            return {"nontrivial": False, "labels": labels}
    require(raised is not None, "silent-merge", f"{case['op']} of trees differing by [{v['desc']}] at {'/'.join(map(str, v['path'])) or '<root>'} returned a result instead of raising", sig)
    d_r = norm.diff(dr, doc(right), norm.BITEXACT)
    require(not d_r, "rejected-merge-mutated-rhs", lambda: f"rejected {case['op']} ({v['desc']}) changed the right operand: {norm.fmt(d_r)}", sig)
    d_l = norm.diff(dl, doc(left), norm.BITEXACT)
    if d_l:
        if case["op"] == "+=" and nested:
            raise Violation(
                "iadd-partial-mutation",
                f"a += b was rejected ({type(raised).__name__}) because of a nested mismatch [{v['desc']}] but a was already partly merged: {norm.fmt(d_l)}",
                {"op": "+=", "nested": True, "changed": "left"},
            )
        require(False, "rejected-merge-mutated-lhs", f"rejected {case['op']} ({v['desc']}) changed the left operand: {norm.fmt(d_l)}", sig)
    param = "->" not in v["desc"]
    return {"nontrivial": bool(nested or param), "labels": labels + ["depth>=1" if nested else "root"]}
