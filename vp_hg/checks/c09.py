"""C09 - equality is exactly equality of aggregated content (reference equality oracle)."""

import copy
import math
import pickle

import numpy as np
from hypothesis import strategies as st

from .. import gen, norm, states, walk
from ..common import lib
from ..core import require
from ..spec import build, kinds, walk_spec

ID = "C09"
BUDGET = {"quick": (4, 1500), "thorough": (16, 15000)}
TECHNIQUE = "property-based testing (Hypothesis) of == against a reference equality on normalised documents"
RULE = (
    "Generated pairs (a, b): (positive) an object vs itself, copy(), pickle clone and - in immutable form - its JSON "
    "reload; (single difference) the same spec filled from two streams that differ in one datum (moved between bins, "
    "dropped, duplicated), a structural variant of the spec (extra trailing threshold / centre / bin, moved edge, other "
    "child type, look-alike primitive) filled with the same stream, and a pickle clone with one numeric field perturbed "
    "by one ulp or by a gross amount; (relabel) the same labelled tree declared with its keys in the opposite order, "
    "or with the children of two keys exchanged; (history) an object and its copy / pickle clone / twin are compared, one is then "
    "changed by fills or +=, they are compared again, the other gets the same change, and they are compared a third "
    "time; (arbitrary) two independent trees.  Reference relation R = equality of type tree, "
    "structural parameters and normalised content (NaN == NaN, names ignored).  Oracle: == returns a bool without "
    "raising, the same in both orders, != is its negation; a == b implies R(a, b) at zero tolerance; every positive "
    "pair is equal; equality at tolerance 0 implies equality at 1e-12; a one-ulp perturbation is equal at 1e-12 and "
    "unequal at 0.  Non-trivial: a pair with R false whose difference sits at depth >= 1 or is a structural parameter; "
    "distinct by sha1 of the case."
)
ASSUMPTIONS = [
    "R is computed from toJson() documents (C04 checks that the serialiser exposes all content)",
    "quantity names / code are allowed to make == stricter than R (the statement speaks of content)",
]

NUMERIC_FIELDS = {
    "Count": ("entries",),
    "Sum": ("entries", "sum"),
    "Average": ("entries", "mean"),
    "Deviate": ("entries", "mean", "varianceTimesEntries"),
    "Minimize": ("entries", "min"),
    "Maximize": ("entries", "max"),
    "Bag": ("entries", "@values"),
    "Bin": ("entries", "low", "high"),
    "SparselyBin": ("entries", "binWidth", "origin"),
    "CentrallyBin": ("entries",),
    "IrregularlyBin": ("entries",),
    "Stack": ("entries",),
    "Fraction": ("entries",),
    "Select": ("entries",),
    "Categorize": ("entries",),
    "Label": ("entries",),
    "UntypedLabel": ("entries",),
    "Index": ("entries",),
    "Branch": ("entries",),
}


def strategy(tier):
    thorough = tier == "thorough"
    opts = gen.TreeOpts(max_depth=4 if thorough else 3, count_transforms=False)

    @st.composite
    def cases(draw):
        spec, focus = draw(gen.specs_and_focus(opts, 8))
        stream, _ = draw(gen.streams(spec, max_rows=24 if thorough else 12, focus=focus))
        stream = [[r, w] for r, w in stream]
        mode = draw(st.sampled_from(("positive", "datum", "datum", "structure", "structure", "perturb", "perturb", "arbitrary", "history", "relabel")))
        case = {"spec": spec, "stream": stream, "mode": mode}
        if mode == "positive":
            # the state may also be one made by the combining constructors (immutable; Stack.build has NaN thresholds)
            case["built"] = draw(st.sampled_from((None, None, "stack", "stack3", "fraction")))
            # ... or a state derived from another one (emptied, reloaded and emptied, scaled away, doubled)
            case["derive"] = draw(st.sampled_from(("none", "none", "zero", "reload-zero", "reload-times0", "reload-timesnan", "times0", "plus-self", "reload-plus-self")))
            if case["built"]:
                s2, _ = draw(gen.streams(spec, max_rows=8, focus=focus))
                case["stream2"] = [[r, w] for r, w in s2]
        if mode == "datum":
            n = len(stream)
            crit = gen.critical_values(spec)
            case["edit"] = draw(st.sampled_from(("replace", "drop", "dup", "reweight")))
            case["at"] = draw(st.integers(0, max(0, n - 1)))
            case["row"] = draw(gen.rows(crit, True, focus=focus))
        elif mode == "structure":
            case["variant"] = draw(gen.variant_of(spec))
            # declared parameters distinguish two aggregators before any datum does
            if draw(st.integers(0, 3)) == 0:
                case["stream"] = []
        elif mode == "perturb":
            case["node"] = draw(st.integers(0, 200))
            case["field"] = draw(st.integers(0, 5))
            case["amount"] = draw(st.sampled_from(("ulp", "-ulp", "gross", "gross", "neg", "to-inf", "to-nan")))
        elif mode == "relabel":
            case["swap"] = draw(st.booleans())
        elif mode == "history":
            extra, _ = draw(gen.streams(spec, max_rows=6, focus=focus))
            case["extra"] = [[r, w] for r, w in extra]
            case["clone"] = draw(st.sampled_from(("copy", "pickle", "twin")))
            case["op"] = draw(st.sampled_from(("fill", "iadd")))
            # the objects may be JSON reloads (immutable: they can still be merged into)
            case["reloaded"] = draw(st.integers(0, 3)) == 0
        elif mode == "arbitrary":
            spec2 = draw(gen.tree_specs(opts))
            s2, _ = draw(gen.streams(spec2, max_rows=6))
            case["spec2"] = spec2
            case["stream2"] = [[r, w] for r, w in s2]
        return case

    return cases()


def swap_children(spec):
    """Exchange the children of the first two keys of the first Label / UntypedLabel that has two different children."""
    import copy  # noqa: PLC0415

    out = copy.deepcopy(spec)
    for _, node in walk_spec(out):
        if node["k"] in ("Label", "UntypedLabel") and len(node["pairs"]) >= 2:
            ks = list(node["pairs"])
            for i in range(len(ks)):
                for j in range(i + 1, len(ks)):
                    if node["pairs"][ks[i]] != node["pairs"][ks[j]]:
                        node["pairs"][ks[i]], node["pairs"][ks[j]] = node["pairs"][ks[j]], node["pairs"][ks[i]]
                        return out
    return None


def ndoc(h):
    return norm.norm(h.toJson(), names=False)


def fill(h, stream):
    for r, w in stream:
        h.fill(r, w)
    return h


def set_tol(t):
    import histogrammar.util as u  # noqa: PLC0415

    u.relativeTolerance = t
    u.absoluteTolerance = t


def eq3(a, b, what):
    """a == b with all the protocol requirements; returns the truth value."""
    r1, r2 = a == b, b == a
    n1, n2 = a != b, b != a
    for r in (r1, r2, n1, n2):
        require(isinstance(r, (bool, np.bool_)), "eq-not-bool", f"{what}: == / != returned {type(r).__name__}")
    require(bool(r1) == bool(r2), "eq-asymmetric", f"{what}: a == b is {r1} but b == a is {r2}")
    require(bool(n1) == (not r1) and bool(n2) == (not r2), "ne-not-negation", f"{what}: != is not the negation of ==")
    return bool(r1)


def perturb(clone, node_i, field_i, amount):
    """Change one numeric field of one node of `clone` in place; returns a description or None."""
    pairs = [(p, n, f) for p, n in walk.walk(clone) for f in NUMERIC_FIELDS[n.name] if f != "entries" or amount in ("ulp", "-ulp", "gross")]
    # content fields first: 'entries' of inner nodes is the least interesting thing to perturb
    pairs.sort(key=lambda t: t[2] == "entries")
    if not pairs:
        return None
    p, n, f = pairs[(node_i * 7 + field_i) % len(pairs)]
    if f == "@values":
        if not n.values:
            f = "entries"
        else:
            key = sorted(n.values, key=repr)[field_i % len(n.values)]
            old = n.values[key]
            new = _bump(old, amount)
            if new is None:
                return None
            n.values[key] = new
            return f"{'/'.join(map(str, p))}:Bag.values[{key!r}] {old!r}->{new!r}"
    old = getattr(n, f)
    new = _bump(old, amount)
    if new is None:
        return None
    setattr(n, f, new)
    return f"{'/'.join(map(str, p)) or '<root>'}:{n.name}.{f} {old!r}->{new!r}"


def _bump(x, amount):
    if not isinstance(x, float):
        return None
    if amount == "neg":  # sign flip (also of an infinity)
        return -x if x == x and x != 0 else None
    if amount == "to-inf":
        return math.inf if x == x and not math.isinf(x) else None
    if amount == "to-nan":
        return math.nan if x == x else None
    if math.isnan(x) or math.isinf(x):
        return None
    if amount == "ulp":
        return math.nextafter(x, math.inf)
    if amount == "-ulp":
        y = math.nextafter(x, -math.inf)
        return y if y >= 0 or x < 0 else None
    return x + 1.0 if abs(x) < 1e15 else x * 2


def check(case):  # noqa: PLR0912, PLR0915
    hg = lib()
    spec, stream, mode = case["spec"], case["stream"], case["mode"]
    a = fill(build(spec), stream)
    labels = ["mode:" + mode] + ["kind:" + k for k in kinds(spec)]
    nontrivial = False
    try:
        set_tol(0.0)
        if mode == "positive":
            built = case.get("built")
            if built:
                a2 = fill(build(spec), case["stream2"])
                a = {"stack": lambda: hg.Stack.build(a, a2), "stack3": lambda: hg.Stack.build(a, a2, a.copy()), "fraction": lambda: hg.Fraction.build(a, a2)}[built]()
                labels.append("built:" + built)
            how = case.get("derive", "none")
            if how != "none":
                if how.startswith("reload-"):
                    a = hg.Factory.fromJson(a.toJson())
                    how = how[len("reload-"):]
                a = {"zero": lambda: a.zero(), "times0": lambda: a * 0.0, "timesnan": lambda: a * float("nan"), "plus-self": lambda: a + a}[how]()
                labels.append("derived:" + case["derive"])
            r = hg.Factory.fromJson(a.toJson())
            pairs = [("self", a, a), ("copy", a, a.copy()), ("pickle", a, pickle.loads(pickle.dumps(a))), ("reload", a.toImmutable(), r), ("reload-copy", r, r.copy())]
            for what, x, y in pairs:
                for t in (0.0, 1e-12):
                    set_tol(t)
                    require(eq3(x, y, what), "positive-pair-unequal", f"{what}: objects with identical content compare unequal at tolerance {t}")
            set_tol(0.0)
            return {"nontrivial": ndoc(a)["entries"] > 0, "labels": labels}

        if mode == "history":
            # == must answer for the state the operands are in *now*, whatever was compared before
            if case.get("reloaded"):
                case = dict(case, op="iadd")
                a = hg.Factory.fromJson(a.toJson())
                labels.append("reloaded")
            b = {"copy": lambda: a.copy(), "pickle": lambda: pickle.loads(pickle.dumps(a)),
                 "twin": lambda: hg.Factory.fromJson(a.toJson()) if case.get("reloaded") else fill(build(spec), stream)}[case["clone"]]()
            twin = case["clone"] == "twin"  # separately built quantities may legitimately make == stricter
            what = f"history:{case['clone']}:{case['op']}"
            e = eq3(a, b, what + " before")
            require(e or twin, "positive-pair-unequal", f"{what}: an object and its {case['clone']} compare unequal")

            def mutate(h):
                if case["op"] == "fill":
                    fill(h, case["extra"])
                else:
                    h += fill(build(spec), case["extra"])  # noqa: PLW2901
                return h

            def positives(x, when):
                # "an aggregator equals its copy(), its pickle clone and its JSON reload" - in the state it is in now
                for nm_, y in (("copy()", x.copy()), ("pickle clone", pickle.loads(pickle.dumps(x))), ("pickle clone's copy()", pickle.loads(pickle.dumps(x)).copy())):
                    require(eq3(x, y, f"{what} {when} vs {nm_}"), "positive-pair-unequal", f"{what}: {when}, the object compares unequal to its {nm_}", {"mode": "history"})
                require(eq3(x.toImmutable(), hg.Factory.fromJson(x.toJson()), f"{what} {when} vs reload"), "positive-pair-unequal", f"{what}: {when}, the immutable form compares unequal to the JSON reload", {"mode": "history"})

            b = mutate(b)
            positives(b, f"after == and then {case['op']}")
            da, db = ndoc(a), ndoc(b)
            R = norm.same(da, db, norm.BITEXACT)
            e = eq3(a, b, what + " after mutating b")
            require(not e or R, "equal-but-different", lambda: f"{what}: after b was compared with a and then changed by {case['op']}, a == b is True although content differs: {norm.fmt(norm.diff(da, db, norm.BITEXACT))}", {"mode": "history"})
            a = mutate(a)
            positives(a, f"after == and then {case['op']} (the original)")
            da = ndoc(a)
            R2 = norm.same(da, db, norm.BITEXACT)
            e = eq3(a, b, what + " after mutating both")
            require(not e or R2, "equal-but-different", lambda: f"{what}: after both sides had the same {case['op']}, a == b is True although content differs", {"mode": "history"})
            require(e or twin or not R2, "positive-pair-unequal", f"{what}: a and its {case['clone']} compare unequal after both had the same {case['op']} (documents identical)", {"mode": "history"})
            labels += ["clone:" + case["clone"], "op:" + case["op"], "R-true" if R else "R-false"]
            return {"nontrivial": not R, "labels": labels}

        if mode == "relabel":
            # the same labelled tree declared with its keys in the opposite order (same content), or with the
            # children of two keys exchanged (other content under the same keys): children are compared by key
            from ..spec import relabeled  # noqa: PLC0415

            v = relabeled(spec)
            if case["swap"]:
                v = swap_children(v)
            if v is None or not any(s_["k"] in ("Label", "UntypedLabel") and len(s_["pairs"]) >= 2 for _, s_ in walk_spec(spec)):
                return {"nontrivial": False, "labels": labels + ["no-label"]}
            b = fill(build(v), stream)
            what = "relabel:" + ("children-exchanged" if case["swap"] else "key-order")
            labels.append(what)
        elif mode == "datum":
            s2 = [list(x) for x in stream]
            if s2:
                i = case["at"] % len(s2)
                if case["edit"] == "replace":
                    s2[i] = [case["row"], s2[i][1]]
                elif case["edit"] == "drop":
                    del s2[i]
                elif case["edit"] == "dup":
                    s2.append(s2[i])
                else:
                    s2[i] = [s2[i][0], 2.0 if s2[i][1] != 2.0 else 1.0]
            else:
                s2 = [[case["row"], 1.0]]
            b = fill(build(spec), s2)
            what = "datum:" + case["edit"]
        elif mode == "structure":
            v = case["variant"]
            if v is None:
                return {"nontrivial": False, "labels": labels + ["no-variant"]}
            b = fill(build(v["spec"]), stream)
            what = "structure:" + v["desc"]
            labels.append("variant:" + v["desc"])
            if not stream:
                # nothing filled: every single-aspect variant of the declaration is compared, not only the drawn one
                labels.append("all-variants-unfilled")
                from histogrammar.defs import ContainerException  # noqa: PLC0415

                extra = []
                for i_, (_, node) in enumerate(walk_spec(spec)):
                    if node["k"] == "Bag":
                        # the declared range alone, the quantity untouched (nothing is filled, so any range will do)
                        for rng in ("N", "S", "N2", "N3"):
                            if rng != node["range"]:
                                vspec = copy.deepcopy(spec)
                                list(walk_spec(vspec))[i_][1]["range"] = rng
                                extra.append((None, f"Bag.range-only {node['range']}->{rng}", vspec))
                for origin_, desc, vspec in gen.all_variants(spec) + extra:
                    try:
                        other = build(vspec)
                    except (ContainerException, ValueError):
                        if origin_ is None:
                            continue  # (a Label / Index takes children of one type only: this declaration does not exist)
                        raise
                    da, db = ndoc(a), ndoc(other)
                    if not norm.same(da, db, norm.BITEXACT):
                        # (tolerance 0 only: a positive tolerance may legitimately bridge a tiny numeric difference)
                        require(not eq3(a, other, f"structure:{desc} (unfilled)"), "equal-but-different", lambda: f"structure:{desc} (both unfilled): a == b is True although the declarations differ: {norm.fmt(norm.diff(da, db, norm.BITEXACT))}")  # noqa: B023
        elif mode == "perturb":
            b = pickle.loads(pickle.dumps(a))
            what = perturb(b, case["node"], case["field"], case["amount"])
            if what is None:
                return {"nontrivial": False, "labels": labels + ["perturb-skipped"]}
            labels.append("perturb:" + case["amount"])
        else:
            b = fill(build(case["spec2"]), case["stream2"])
            what = "arbitrary"

        da, db = ndoc(a), ndoc(b)
        R = norm.same(da, db, norm.BITEXACT)
        e0 = eq3(a, b, what)
        require(not e0 or R, "equal-but-different", lambda: f"{what}: a == b is True although content differs: {norm.fmt(norm.diff(da, db, norm.BITEXACT))}")
        set_tol(1e-12)
        e12 = eq3(a, b, what + " (tolerance 1e-12)")
        require(e12 or not e0, "tolerance-narrowed", f"{what}: equal at tolerance 0 but unequal at 1e-12")
        if mode == "perturb" and case["amount"] in ("ulp", "-ulp"):
            require(e12, "ulp-unequal-with-tolerance", f"{what}: a one-ulp perturbation is unequal at tolerance 1e-12")
        set_tol(0.0)
        if not R:
            diffs = norm.diff(da, db, norm.BITEXACT)
            nontrivial = any(len(p) >= 2 for p, _, _ in diffs) or mode == "structure"
            labels.append("R-false")
        else:
            labels.append("R-true")
    finally:
        set_tol(0.0)
    return {"nontrivial": nontrivial, "labels": labels}
