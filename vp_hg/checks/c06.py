"""C06 - non-interference: operations never mutate operands or share mutable state (stateful + construction)."""

import math
import operator
import pickle
import sys

import numpy as np
from hypothesis import strategies as st

from .. import gen, norm, walk
from ..common import enc, lib
from ..core import Violation, require
from ..spec import build, kinds, renamed
from .c03 import _qbearing, count_before_shape, make_data

ID = "C06"
BUDGET = {"quick": (4, 250), "thorough": (16, 2500)}
TECHNIQUE = "stateful property-based testing (Hypothesis RuleBasedStateMachine) with behavioural and identity-graph aliasing detectors, plus generated construction programs"
RULE = (
    "Two generated families.  (history) a rule-based state machine over a pool of aggregators: pure rules (a+b, a*f, "
    "f*a, zero, copy, toJson, toJsonString, ==, !=, hash, repr, read accessors, pickle.dumps) add their results to the "
    "pool; mutating rules (fill, fill.numpy, +=) pick any pool member - results and sources alike - as target, with data "
    "aimed at the bins of the tree.  After every operation the normalised document and repr of every live object are "
    "re-read: after a pure rule nobody changed, after a mutating rule only the target changed; and the sets of "
    "fillable-node / content-container identities of any two pool members are disjoint (template slots excluded).  "
    "(construction) two, then a third, aggregator from separate calls of the same constructor relying on default "
    "arguments (every primitive with defaults, the .ing synonyms, histogrammar.convenience, DataFrame.hg_* methods): "
    "filling one leaves the others at their initial document, a later-constructed one starts empty, identity sets are "
    "disjoint; 2..4 calls of the past-tense constructors with defaulted dictionary arguments (Label.ed, UntypedLabel.ed, "
    "Categorize.ed; keyword or dictionary style, generated key sets): each result holds exactly the children it was "
    "given and shares nothing with the others; and a parent built from a user-supplied template that is filled afterwards behaves exactly like a twin "
    "built from a pristine template.  Non-trivial: a history in which an object derived by a pure rule, or one of its "
    "sources, is mutated after the derivation; any construction case; distinct by sha1 of the op list / case."
)
ASSUMPTIONS = [
    "observable state = normalised toJson() document + repr (C04 checks that the document exposes all content)",
    "the value template of SparselyBin / Categorize / CentrallyBin is a documented shareable slot and is excluded from the identity sets",
    "Select.cut and the children of collections are kept by design (C16); they are not used as templates here",
]

# ---------------------------------------------------------------------------------------------------------
# history interpreter


def snapshot(h):
    return (norm.norm(h.toJson()), repr(h))


def accessors(h):
    """Call the no-argument read accessors that exist on h; exceptions are C13's business, not ours."""
    called = 0
    dense = ("bin_entries", "bin_edges", "bin_centers", "num_bins", "mpv", "indexes")
    # the dense views of a SparselyBin materialise every index between its lowest and highest filled bin: skip them
    # when that range is huge (a far-outside datum), they would allocate gigabytes by design
    target = h
    while target.name == "Select":  # a Select forwards unknown attributes to its cut
        target = target.cut
    # (indexes filled by fill.numpy are numpy.int64: subtract as Python ints, the sentinel index of an infinite datum
    # would overflow)
    huge = target.name == "SparselyBin" and bool(target.bins) and (int(max(target.bins)) - int(min(target.bins))) > 5000
    # the 2-D views (grid, limits, projections) exist on binning-of-binning histograms; their grids are dense as well
    grid = ("x_lim", "y_lim", "xy_ranges_grid", "project_on_x", "project_on_y")
    huge2 = huge
    if target.name == "SparselyBin":
        inner = [i for v in target.bins.values() if v.name == "SparselyBin" for i in v.bins]
        huge2 = huge or (bool(inner) and int(max(inner)) - int(min(inner)) > 2000)
    for name in ("bin_entries", "bin_edges", "bin_centers", "num_bins", "bin_width", "bin_labels", "n_bins", "n_dim", "datatype", "mpv", "size", "keys", "values", "indexes", *grid):
        if (huge and name in dense) or (huge2 and name in grid):
            continue
        try:
            a = getattr(h, name)
            if callable(a):
                a()
            called += 1
        except Exception:  # noqa: BLE001, S112
            continue
    # histogram() derives a plain-count aggregator: a pure operation whose result must own all of its nodes
    derived = None
    if not huge:
        try:  # (a Select answers a missing attribute with KeyError, so not even hasattr can be used on it)
            derived = h.histogram()
        except Exception:  # noqa: BLE001  (existence and correctness of histogram() are not this property's business)
            derived = None
    if derived is not None and isinstance(derived, lib().Container):
        sh = walk.identity_set(h) & walk.identity_set(derived)
        require(not sh, "shared-mutable-state", lambda: f"{h.name}.histogram() shares mutable state with the histogram it was derived from: {walk.shared(h, derived)[:4]}", {"op": "histogram"})
        called += 1
    return called


class Pool:
    def __init__(self):
        self.objs = []  # dict(h, spec, sid, mutable)
        self.snaps = []
        self.derived = set()  # indexes related to some other pool member by a pure operation
        self.mutated_after = False

    def mutable(self):
        return [i for i, o in enumerate(self.objs) if o["mutable"]]

    def partners(self, i):
        return [j for j, o in enumerate(self.objs) if o["sid"] == self.objs[i]["sid"]]

    def push(self, h, src, mutable=None, relatives=()):
        o = dict(src, h=h)
        if mutable is not None:
            o["mutable"] = mutable
        self.objs.append(o)
        self.snaps.append(snapshot(h))
        i = len(self.objs) - 1
        if relatives:
            self.derived.add(i)
            self.derived.update(relatives)
        return i

    def apply(self, op):  # noqa: PLR0912, PLR0915
        """Returns the index of the object the operation is allowed to change (or None)."""
        hg = lib()
        k = op["op"]
        if k == "new":
            h = build(op["spec"])
            self.objs.append({"h": h, "spec": op["spec"], "sid": len(self.objs), "mutable": True,
                              "numpy_ok": _qbearing(op["spec"]), "scalar_ok": not count_before_shape(op["spec"])})
            self.snaps.append(snapshot(h))
            return None
        if k == "fill":
            self.objs[op["t"]]["h"].fill(op["row"], op["w"])
            return op["t"]
        if k == "fillnp":
            o = self.objs[op["t"]]
            data = make_data("dict", op["rows"])
            if isinstance(op["w"], list):
                o["h"].fill.numpy(data, np.array(op["w"], dtype=np.float64))
            elif op["w"] is None:
                o["h"].fill.numpy(data)
            else:
                o["h"].fill.numpy(data, op["w"])
            return op["t"]
        if k == "iadd":
            if op["a"] != op["b"]:
                a = self.objs[op["a"]]
                a["h"] = operator.iadd(a["h"], self.objs[op["b"]]["h"])
                return op["a"]
            return None
        a = self.objs[op["a"]]
        h = a["h"]
        if k == "add":
            b = self.objs[op["b"]]
            self.push(h + b["h"], a, relatives=(op["a"], op["b"]))
        elif k == "mul":
            self.push(h * op["f"] if op["side"] == "l" else op["f"] * h, a, relatives=(op["a"],))
        elif k == "zero":
            self.push(h.zero(), a, relatives=(op["a"],))
        elif k == "copy":
            self.push(h.copy(), a, relatives=(op["a"],))
        elif k == "reload":
            self.push(hg.Factory.fromJson(h.toJson()), a, mutable=False, relatives=(op["a"],))
        elif k == "immutable":
            self.push(h.toImmutable(), a, mutable=False, relatives=(op["a"],))
        elif k == "tojson":
            h.toJson()
            h.toJsonString()
        elif k == "eq":
            b = self.objs[op["b"]]["h"]
            h == b  # noqa: B015
            h != b  # noqa: B015
        elif k == "hash":
            hash(h)
        elif k == "repr":
            repr(h)
            str(h)
        elif k == "accessors":
            accessors(h)
        elif k == "dumps":
            pickle.dumps(h)
        else:
            raise ValueError(k)
        return None

    def check(self, target, after, op):
        for i, o in enumerate(self.objs):
            snap = snapshot(o["h"])
            if i == target:
                if snap != self.snaps[i] and i in self.derived:
                    self.mutated_after = True
                self.snaps[i] = snap
                continue
            if snap != self.snaps[i]:
                d = norm.diff(self.snaps[i][0], snap[0], norm.BITEXACT)
                what = norm.fmt(d) if d else f"repr {self.snaps[i][1]} -> {snap[1]}"
                role = "operand / bystander"
                raise Violation(
                    "interference",
                    f"after {after}: object {i} ({o['spec']['k']}, {role}) changed although the operation may only change {target}: {what}",
                    {"op": op["op"]},
                )
        ids = [walk.identity_set(o["h"]) for o in self.objs]
        for i in range(len(ids)):
            for j in range(i + 1, len(ids)):
                if ids[i] & ids[j]:
                    raise Violation(
                        "shared-mutable-state",
                        f"after {after}: objects {i} and {j} share mutable state: {walk.shared(self.objs[i]['h'], self.objs[j]['h'])[:4]}",
                        {"op": op["op"]},
                    )


def run_history(case):
    pool = Pool()
    for n, op in enumerate(case["ops"]):
        target = pool.apply(op)
        pool.check(target, f"step {n} ({op['op']})", op)
    specs = [o["spec"] for o in pool.objs[:3]]
    labels = ["mode:history"] + sorted({"kind:" + k for s in specs for k in kinds(s)}) + sorted({"op:" + op["op"] for op in case["ops"]})
    return {"nontrivial": pool.mutated_after, "labels": labels}


# ---------------------------------------------------------------------------------------------------------
# construction programs

QX = "x"
QY = "y"


def ctor_table():
    hg = lib()
    import histogrammar.convenience as cv  # noqa: PLC0415

    return {
        "Select(q)": lambda: hg.Select("w"),
        "Select.ing(q)": lambda: hg.Select.ing("w"),
        "Bin(n,l,h,q)": lambda: hg.Bin(4, -2.0, 2.0, QX),
        "Bin.ing(n,l,h,q)": lambda: hg.Bin.ing(4, -2.0, 2.0, QX),
        "SparselyBin(w,q)": lambda: hg.SparselyBin(1.0, QX),
        "SparselyBin.ing(w,q)": lambda: hg.SparselyBin.ing(1.0, QX),
        "Categorize(q)": lambda: hg.Categorize("t"),
        "Categorize.ing(q)": lambda: hg.Categorize.ing("t"),
        "Fraction(q)": lambda: hg.Fraction("w"),
        "Fraction.ing(q)": lambda: hg.Fraction.ing("w"),
        "CentrallyBin(c,q)": lambda: hg.CentrallyBin([-1.0, 0.0, 1.0], QX),
        "CentrallyBin.ing(c,q)": lambda: hg.CentrallyBin.ing([-1.0, 0.0, 1.0], QX),
        "IrregularlyBin(e,q)": lambda: hg.IrregularlyBin([-1.0, 0.0, 1.0], QX),
        "IrregularlyBin.ing(e,q)": lambda: hg.IrregularlyBin.ing([-1.0, 0.0, 1.0], QX),
        "Stack(t,q)": lambda: hg.Stack([-1.0, 0.0, 1.0], QX),
        "Stack.ing(t,q)": lambda: hg.Stack.ing([-1.0, 0.0, 1.0], QX),
        "Select(q, Bin(...))": lambda: hg.Select("w", hg.Bin(2, 0.0, 1.0, QX)),
        "Bin(.., value=Select(q))": lambda: hg.Bin(2, -2.0, 2.0, QX, hg.Select("w")),
        "Label(a=Select(q))": lambda: hg.Label(a=hg.Select("w"), b=hg.Select("w")),
        "Histogram": lambda: cv.Histogram(4, -2.0, 2.0, QX),
        "HistogramCut": lambda: cv.HistogramCut(4, -2.0, 2.0, QX, "w"),
        "SparselyHistogram": lambda: cv.SparselyHistogram(1.0, QX),
        "CategorizeHistogram": lambda: cv.CategorizeHistogram("t"),
        "Profile": lambda: cv.Profile(4, -2.0, 2.0, QX, QY),
        "SparselyProfile": lambda: cv.SparselyProfile(1.0, QX, QY),
        "ProfileErr": lambda: cv.ProfileErr(4, -2.0, 2.0, QX, QY),
        "SparselyProfileErr": lambda: cv.SparselyProfileErr(1.0, QX, QY),
        "TwoDimensionallyHistogram": lambda: cv.TwoDimensionallyHistogram(2, -2.0, 2.0, QX, 2, -2.0, 2.0, QY),
        "TwoDimensionallySparselyHistogram": lambda: cv.TwoDimensionallySparselyHistogram(1.0, QX, 1.0, QY),
    }


def df_table():
    """name -> (call on a DataFrame, explicit twin constructor with fresh arguments)."""
    hg = lib()
    C = hg.Count
    return {
        "df.hg_Select": (lambda df: df.hg_Select("w"), lambda: hg.Select("w", C())),
        "df.hg_Bin": (lambda df: df.hg_Bin(4, -2.0, 2.0, QX), lambda: hg.Bin(4, -2.0, 2.0, QX, C(), C(), C(), C())),
        "df.hg_SparselyBin": (lambda df: df.hg_SparselyBin(1.0, QX), lambda: hg.SparselyBin(1.0, QX, C(), C(), 0.0)),
        "df.hg_Categorize": (lambda df: df.hg_Categorize("b"), lambda: hg.Categorize("b", C())),
        "df.hg_Fraction": (lambda df: df.hg_Fraction("w"), lambda: hg.Fraction("w", C())),
        "df.hg_CentrallyBin": (lambda df: df.hg_CentrallyBin([-1.0, 0.0, 1.0], QX), lambda: hg.CentrallyBin([-1.0, 0.0, 1.0], QX, C(), C())),
        "df.hg_IrregularlyBin": (lambda df: df.hg_IrregularlyBin([-1.0, 0.0, 1.0], QX), lambda: hg.IrregularlyBin([-1.0, 0.0, 1.0], QX, C(), C())),
        "df.hg_Stack": (lambda df: df.hg_Stack([-1.0, 0.0, 1.0], QX), lambda: hg.Stack([-1.0, 0.0, 1.0], QX, C(), C())),
        "df.hg_Select(q, hg_Bin)": (lambda df: df.hg_Select("w", hg.Bin(2, -2.0, 2.0, QX)), lambda: hg.Select("w", hg.Bin(2, -2.0, 2.0, QX, C(), C(), C(), C()))),
    }


CTOR_NAMES = None
TEMPLATE_PARENTS = ("Bin", "SparselyBin", "CentrallyBin", "IrregularlyBin", "Stack", "Fraction", "Categorize", "Bin.underflow", "Bin.nanflow", "SparselyBin.nanflow")
SIMPLE_VALUES = (-3.0, -1.5, -1.0, -0.5, 0.0, 0.25, 0.5, 1.0, 1.5, 2.0, 2.5, float("nan"), float("inf"))


@st.composite
def simple_rows(draw, n_max=6, none_cats=False):
    n = draw(st.integers(1, n_max))
    out = []
    for _ in range(n):
        out.append({
            "x": draw(st.sampled_from(SIMPLE_VALUES)), "y": draw(st.sampled_from(SIMPLE_VALUES)), "z": draw(st.sampled_from(SIMPLE_VALUES)),
            "w": draw(st.sampled_from((1.0, 1.0, 0.0, 0.5, 2.0))), "s": draw(st.sampled_from(("a", "b", "c"))),
            "t": draw(st.sampled_from(("a", "b", "zz"))), "b": draw(st.booleans()),
        })
    return out


def strategy(tier):
    names = sorted(ctor_table()) if lib() else []
    names += [n for n in names if n.startswith("TwoDimensionally")] * 3  # the only constructors with 2-D read views
    dfnames = sorted(df_table())
    topts = gen.TreeOpts(max_depth=2, bag_ranges=("N", "S"), flavours=("lambda", "str"))

    @st.composite
    def cases(draw):
        mode = draw(st.sampled_from(("ctor", "ctor", "ed", "df", "template", "template", "derive", "derive", "derive")))
        if mode == "ed":
            keysets = st.lists(st.sampled_from(("a", "b", "c", "d", "entries", "pairsAsDict")), unique=True, max_size=3)
            return {
                "mode": "ed",
                "ctor": draw(st.sampled_from(("Label.ed", "UntypedLabel.ed", "Categorize.ed"))),
                "calls": draw(st.lists(st.tuples(keysets, st.sampled_from(("kwargs", "kwargs", "dict")), st.sampled_from((1.0, 2.0, 0.0))), min_size=2, max_size=4)),
            }
        if mode == "derive":
            dopts = gen.TreeOpts(max_depth=3, bag_ranges=("N", "S"), count_transforms=False, max_bins=6)
            spec, focus = draw(gen.specs_and_focus(dopts, 5))
            ra, rb = draw(gen.recipes(spec, max_rows=8, focus=focus)), draw(gen.recipes(spec, max_rows=8, focus=focus))
            # immutable (JSON-reloaded) operands take other code paths in + / += (no template to build on): half of
            # the left operands and a quarter of the right ones are reloads
            ra["reload"] = draw(st.booleans())
            rb["reload"] = draw(st.integers(0, 3)) == 0
            return {
                "mode": "derive",
                "spec": spec,
                "a": ra,
                "b": rb,
                "c": draw(gen.recipes(spec, max_rows=6, reload_ok=False, focus=focus)),
                "op": draw(st.sampled_from(("a+b", "a+b", "b+a", "a*f", "f*a", "copy", "zero", "toImmutable", "a+=b"))),
                "f": draw(st.sampled_from((2.0, 0.5, 1.0, 1))),
                "b_naming": draw(st.sampled_from(("same", "same", "named", "anonymous"))),
                "steps": draw(st.lists(st.tuples(st.sampled_from("abr"), st.sampled_from(("fill", "iadd")), st.integers(0, 5)), min_size=1, max_size=5)),
            }
        case = {"mode": mode, "rows1": draw(simple_rows()), "rows2": draw(simple_rows()), "numpy": draw(st.booleans())}
        if mode == "ctor":
            case["ctor"] = draw(st.sampled_from(names))
        elif mode == "df":
            case["ctor"] = draw(st.sampled_from(dfnames))
        else:
            case["parent"] = draw(st.sampled_from(TEMPLATE_PARENTS))
            case["template"] = draw(gen.tree_specs(topts))
            case["rows_t"] = draw(simple_rows())
            case["when"] = draw(st.sampled_from(("after", "after", "before", "between")))
        return case

    return cases()


def fill_rows(h, rows, numpy_):
    if numpy_:
        h.fill.numpy(make_data("dict", rows))
    else:
        for r in rows:
            h.fill(r)


def is_empty_doc(h):
    return norm.same(norm.norm(h.toJson()), norm.norm(h.zero().toJson()), norm.BITEXACT)


def run_ctor(case):
    make = ctor_table()[case["ctor"]]
    a, b = make(), make()
    require(not (walk.identity_set(a) & walk.identity_set(b)), "shared-mutable-state", lambda: f"two calls of {case['ctor']} share mutable state: {walk.shared(a, b)[:4]}", {"ctor": case["ctor"].split("(")[0].split(".")[0]})
    db0 = snapshot(b)
    fill_rows(a, case["rows1"], case["numpy"])
    da = snapshot(a)
    sig = {"ctor": case["ctor"].split("(")[0].split(".")[0]}
    require(snapshot(b) == db0, "interference", lambda: f"filling one {case['ctor']} changed another one built by a separate call: {norm.fmt(norm.diff(db0[0], snapshot(b)[0], norm.BITEXACT))}", sig)
    require(is_empty_doc(b), "not-empty", f"an unfilled {case['ctor']} is not empty after a sibling was filled", sig)
    c = make()
    require(is_empty_doc(c) and c.entries == 0.0, "later-not-empty", lambda: f"a {case['ctor']} constructed after another one was filled does not start empty: {c.toJson()}", sig)
    require(not (walk.identity_set(a) & walk.identity_set(c)), "shared-mutable-state", lambda: f"two calls of {case['ctor']} share mutable state: {walk.shared(a, c)[:4]}", sig)
    fill_rows(b, case["rows2"], case["numpy"])
    fill_rows(c, case["rows2"], not case["numpy"])
    require(snapshot(a) == da, "interference", f"filling the second/third {case['ctor']} changed the first", sig)
    # reading never changes: every read accessor the object has (1-D and 2-D views), twice
    # (the histograms with 2-D views are read in every construction case: they have by far the most read accessors)
    grids = []
    for nm in ("TwoDimensionallySparselyHistogram", "TwoDimensionallyHistogram"):
        g = ctor_table()[nm]()
        fill_rows(g, case["rows1"] + case["rows2"], case["numpy"])
        grids.append((g, nm + " filled with both row sets"))
    for h_, what_ in ((a, "first"), (b, "second"), *grids):
        snap = snapshot(h_)
        for _ in range(2):
            accessors(h_)
            require(snapshot(h_) == snap, "accessor-mutated", lambda: f"reading the views of the {what_} {case['ctor']} changed it: {norm.fmt(norm.diff(snap[0], snapshot(h_)[0], norm.BITEXACT))}", sig)  # noqa: B023
    return {"nontrivial": True, "labels": ["mode:ctor", "ctor:" + case["ctor"]]}


def run_ed(case):
    """Separate calls of the past-tense constructors that rely on default arguments (Label.ed, UntypedLabel.ed,
    Categorize.ed accept `pairsAsDict=None, **pairs`): each result holds exactly the children it was given."""
    hg = lib()
    name = case["ctor"]
    sig = {"ctor": name}
    made = []
    # four fixed calls come first, so that whatever a call leaves behind shows within this very case (a replay in a
    # fresh process sees what the campaign saw)
    for keys, style, n in [[["p0"], "kwargs", 1.0], [["p1"], "dict", 1.0], [["p2"], "kwargs", 1.0], [["p3"], "dict", 1.0]] + [list(c) for c in case["calls"]]:
        if name != "Categorize.ed":
            keys = [k for k in keys if k not in ("entries", "pairsAsDict")] if style == "kwargs" else keys  # noqa: PLW2901
        else:
            keys = [k for k in keys if k not in ("entries", "contentType", "binsAsDict", "pairsAsDict")] if style == "kwargs" else keys  # noqa: PLW2901
        children = {k: hg.Count.ed(n + i) for i, k in enumerate(keys)}
        given = dict(children)
        if name in ("Label.ed", "UntypedLabel.ed"):
            if not children:
                continue  # a Label needs at least one child
            ctor = getattr(hg, name.split(".")[0]).ed
            h = ctor(n, **children) if style == "kwargs" else ctor(n, children)
            got = dict(zip(h.keys, h.values))
        else:
            h = hg.Categorize.ed(n, "Count", **children) if style == "kwargs" else hg.Categorize.ed(n, "Count", children)
            got = dict(h.bins)
        require(given == children and all(given[k] is children[k] for k in given), "argument-mutated", f"{name} changed the dictionary it was given", sig)
        require(
            set(got) == set(given) and all(norm.same(norm.norm(got[k].toJson()), norm.norm(given[k].toJson()), norm.BITEXACT) for k in given),
            "later-not-empty",
            lambda: f"{name}(entries={n}, {sorted(given)}) [{style}] after {len(made)} earlier call(s) holds the children {sorted(got)}",  # noqa: B023
            sig,
        )
        made.append((h, snapshot(h)))
    for i, (h, snap) in enumerate(made):
        _ = h + h
        for j, (o, osnap) in enumerate(made):
            require(snapshot(o) == osnap, "interference", f"{name}: result {j} changed after result {i} was merged / later results were constructed", sig)
            if i < j:
                sh = walk.identity_set(h) & walk.identity_set(o)
                # the child aggregators are the caller's objects: two results given different children share nothing
                require(not sh, "shared-mutable-state", lambda: f"two {name} results share mutable state: {walk.shared(h, o)[:4]}", sig)  # noqa: B023
    return {"nontrivial": len(made) >= 2, "labels": ["mode:ed", "ctor:" + name, f"calls:{len(made)}"]}


def run_df(case):
    import pandas as pd  # noqa: PLC0415

    call, twin = df_table()[case["ctor"]]
    sig = {"ctor": case["ctor"].split("(")[0]}

    def frame(rows):
        return pd.DataFrame({c: [r[c] for r in rows] for c in ("x", "y", "z", "w", "b")})

    df1, df2 = frame(case["rows1"]), frame(case["rows2"])
    h1 = call(df1)
    d1 = snapshot(h1)
    h2 = call(df2)
    require(snapshot(h1) == d1, "interference", lambda: f"a second {case['ctor']} call changed the result of the first: {norm.fmt(norm.diff(d1[0], snapshot(h1)[0], norm.BITEXACT))}", sig)
    require(not (walk.identity_set(h1) & walk.identity_set(h2)), "shared-mutable-state", lambda: f"two {case['ctor']} results share mutable state: {walk.shared(h1, h2)[:4]}", sig)
    t = twin()
    t.fill.numpy(df2)
    d = norm.diff(norm.norm(t.toJson()), norm.norm(h2.toJson()), norm.Policy(exact=True))
    require(not d, "later-not-empty", lambda: f"{case['ctor']} on a second dataframe differs from an explicitly constructed aggregator filled with it: {norm.fmt(d)}", sig)
    return {"nontrivial": True, "labels": ["mode:df", "ctor:" + case["ctor"]]}


def make_parent(kind, tmpl):
    hg = lib()
    C = hg.Count
    if kind == "Bin":
        return hg.Bin(4, -2.0, 2.0, QX, tmpl, C(), C(), C())
    if kind == "Bin.underflow":
        return hg.Bin(2, 0.0, 2.0, QX, C(), tmpl, C(), C())
    if kind == "Bin.nanflow":
        return hg.Bin(2, 0.0, 2.0, QX, C(), C(), C(), tmpl)
    if kind == "SparselyBin":
        return hg.SparselyBin(1.0, QX, tmpl, C(), 0.0)
    if kind == "SparselyBin.nanflow":
        return hg.SparselyBin(1.0, QX, C(), tmpl, 0.0)
    if kind == "CentrallyBin":
        return hg.CentrallyBin([-1.0, 0.0, 1.0], QX, tmpl, C())
    if kind == "IrregularlyBin":
        return hg.IrregularlyBin([-1.0, 0.0, 1.0], QX, tmpl, C())
    if kind == "Stack":
        return hg.Stack([-1.0, 0.0, 1.0], QX, tmpl, C())
    if kind == "Fraction":
        return hg.Fraction("w", tmpl)
    if kind == "Categorize":
        return hg.Categorize("t", tmpl)
    raise ValueError(kind)


def run_template(case):
    tspec = case["template"]
    sig = {"parent": case["parent"].split(".")[0]}
    tmpl = build(tspec)
    when = case["when"]
    if when == "before" and "." in case["parent"]:
        # underflow / overflow / nanflow arguments are content-carrying by design (the constructor copies them with
        # their contents; __add__ and ed() rely on it): only templates proper may be pre-filled
        when = "after"
    if when == "before":
        for r in case["rows_t"]:
            tmpl.fill(r)
    parent = make_parent(case["parent"], tmpl)
    twin = make_parent(case["parent"], build(tspec))
    numpy_ok = case["numpy"] and _qbearing(tspec) and not count_before_shape(tspec)
    dt = None
    if when == "after":
        for r in case["rows_t"]:
            tmpl.fill(r)
    half = len(case["rows1"]) // 2 if when == "between" else len(case["rows1"])
    dt = snapshot(tmpl)
    fill_rows(parent, case["rows1"][:half], numpy_ok)
    fill_rows(twin, case["rows1"][:half], numpy_ok)
    require(snapshot(tmpl) == dt, "interference", lambda: f"filling a {case['parent']} changed the template it was built from: {norm.fmt(norm.diff(dt[0], snapshot(tmpl)[0], norm.BITEXACT))}", sig)
    if when == "between":
        for r in case["rows_t"]:
            tmpl.fill(r)
        dt = snapshot(tmpl)
        fill_rows(parent, case["rows1"][half:], numpy_ok)
        fill_rows(twin, case["rows1"][half:], numpy_ok)
        require(snapshot(tmpl) == dt, "interference", f"filling a {case['parent']} changed the template it was built from", sig)
    d = norm.diff(norm.norm(twin.toJson()), norm.norm(parent.toJson()), norm.BITEXACT)
    require(
        not d,
        "template-leak",
        lambda: f"{case['parent']} built from a template that was filled {when} construction differs from a twin built from a pristine template: {norm.fmt(d)}",
        sig,
    )
    return {"nontrivial": True, "labels": ["mode:template", "parent:" + case["parent"], "when:" + when] + ["kind:" + k for k in kinds(tspec)]}


def run_derive(case):
    """A pure operation on two reachable states (each possibly a JSON reload), then mutations of operands and result."""
    from .. import states  # noqa: PLC0415

    spec, op = case["spec"], case["op"]
    spec_b = spec
    if case.get("b_naming") == "named":
        spec_b = renamed(spec, True)   # b's quantities carry names where a's are anonymous ...
    elif case.get("b_naming") == "anonymous":
        spec_b = renamed(spec, False)  # ... or the other way round
    a, b = states.realize(spec, case["a"]), states.realize(spec_b, case["b"])
    objs = {"a": a, "b": b}
    mutable = {"a": not case["a"].get("reload"), "b": not case["b"].get("reload")}
    before = {k: snapshot(v) for k, v in objs.items()}
    if op == "a+b":
        r = a + b
    elif op == "b+a":
        r = b + a
    elif op == "a*f":
        r = a * case["f"]
    elif op == "f*a":
        r = case["f"] * a
    elif op == "copy":
        r = a.copy()
    elif op == "zero":
        r = a.zero()
    elif op == "toImmutable":
        r = a.toImmutable()
    else:
        r = operator.iadd(a, b)  # r is a; a and b must still be independent afterwards
        before["a"] = snapshot(a)
    sig = {"op": op}
    if op != "a+=b":
        for k in ("a", "b"):
            require(snapshot(objs[k]) == before[k], "interference", lambda: f"{op} changed operand {k}: {norm.fmt(norm.diff(before[k][0], snapshot(objs[k])[0], norm.BITEXACT))}", sig)  # noqa: B023
        objs["r"] = r
        mutable["r"] = False if op == "toImmutable" else mutable["b"] if op == "b+a" else mutable["a"]
    names = sorted(objs)
    for i, x in enumerate(names):
        for y in names[i + 1 :]:
            require(not (walk.identity_set(objs[x]) & walk.identity_set(objs[y])), "shared-mutable-state", lambda: f"after {op}: {x} and {y} share mutable state: {walk.shared(objs[x], objs[y])[:4]}", sig)  # noqa: B023
    snaps = {k: snapshot(v) for k, v in objs.items()}
    crit = gen.critical_values(spec)
    mutated = 0
    for target, how, n in case["steps"]:
        if target not in objs:
            target = "a"
        t = objs[target]
        if how == "fill" and mutable[target]:
            rows = [r_ for r_, w in (case["c"]["fills"] or [])][: n + 1] or [{"x": 0.0, "y": 0.0, "z": 0.0, "w": 1.0, "s": "a", "t": "a", "b": False}]
            for row in rows:
                t.fill(row, 1.0)
        else:
            objs[target] = operator.iadd(t, states.realize(spec, case["c"]))
        mutated += 1
        for k in objs:
            if k != target:
                now = snapshot(objs[k])
                require(now == snaps[k], "interference", lambda: f"after {op}, mutating {target} ({how}) changed {k}: {norm.fmt(norm.diff(snaps[k][0], now[0], norm.BITEXACT))}", sig)  # noqa: B023
        snaps[target] = snapshot(objs[target])
    del crit
    labels = ["mode:derive", "op:" + op] + ["kind:" + k for k in kinds(spec)]
    if case["a"].get("reload") or case["b"].get("reload"):
        labels.append("reloaded-operand")
    return {"nontrivial": mutated > 0, "labels": labels}


def bystanders():
    """Aggregators built by calls that rely on the default arguments (quantity=identity, value=Count(), the default
    selection of HistogramCut ...): whatever a case does to other aggregators, these stay what they are, and a call made
    afterwards gives the same as a call made before."""
    hg = lib()
    import histogrammar.convenience as cv  # noqa: PLC0415

    return {
        "Bin(n,l,h)": hg.Bin(4, -2.0, 2.0),
        "Select(cut=Count())": hg.Select(cut=hg.Count()),
        "Sum()": hg.Sum(),
        "Bag()": hg.Bag(),
        "Categorize()": hg.Categorize(),
        "SparselyBin(w)": hg.SparselyBin(1.0),
        "Fraction()": hg.Fraction(),
        "Stack(t)": hg.Stack([0.0]),
        "HistogramCut(n,l,h,q)": cv.HistogramCut(4, -2.0, 2.0, QX),
        "UntypedLabel(a=Minimize(), b=Deviate())": hg.UntypedLabel(a=hg.Minimize(), b=hg.Deviate()),
    }


def check(case):
    lib()
    by = bystanders()
    before = {k: snapshot(v) for k, v in by.items()}
    out = check_case(case)
    for k, v in by.items():
        now = snapshot(v)
        require(now == before[k], "interference", lambda: f"a separately constructed {k} changed while the case ran: {norm.fmt(norm.diff(before[k][0], now[0], norm.BITEXACT))} / {before[k][1]} vs {now[1]}", {"bystander": k.split("(")[0]})  # noqa: B023
    for k, v in bystanders().items():
        now = snapshot(v)
        require(now == before[k], "default-arguments-changed", lambda: f"{k} constructed after the case differs from the one constructed before it: {norm.fmt(norm.diff(before[k][0], now[0], norm.BITEXACT))} / {before[k][1]} vs {now[1]}", {"bystander": k.split("(")[0]})  # noqa: B023
    return out


def check_case(case):
    m = case.get("mode")
    if m == "derive":
        return run_derive(case)
    if m == "ctor":
        return run_ctor(case)
    if m == "df":
        return run_df(case)
    if m == "ed":
        return run_ed(case)
    if m == "template":
        return run_template(case)
    return run_history(case)


# ---------------------------------------------------------------------------------------------------------
# the state machine


def make_machine(tier, col):
    from hypothesis.stateful import RuleBasedStateMachine, initialize, precondition, rule  # noqa: PLC0415

    thorough = tier == "thorough"
    opts = gen.TreeOpts(max_depth=3, bag_ranges=("N", "S"), count_transforms=False, max_bins=6)
    W = (1.0, 1.0, 0.5, 2.0, 0.0, -1.0)
    FACTORS = (2.0, 0.5, 1.0, 0.0, -1.0, float("nan"), 1)

    class Machine(RuleBasedStateMachine):
        def __init__(self):
            super().__init__()
            self.pool = Pool()
            self.ops = []
            self.crit = {}

        def do(self, op):
            from ..common import hygiene  # noqa: PLC0415
            from ..run import checked  # noqa: PLC0415

            hygiene()
            self.ops.append(op)
            case = {"mode": "history", "ops": self.ops}

            class _M:
                ID = "C06"

                @staticmethod
                def check(_case, pool=self.pool, op=op, n=len(self.ops) - 1):
                    target = pool.apply(op)
                    pool.check(target, f"step {n} ({op['op']})", op)

            try:
                checked(_M, case)
            except Violation as v:
                rec = {"case": enc(case), "kind": v.kind, "detail": v.detail, "sig": enc(v.sig)}
                if col.first_failure is None:
                    col.first_failure = rec
                col.last_failure = rec
                col.failing = True
                raise

        @initialize(data=st.data())
        def start(self, data):
            self.new(data)

        def new(self, data):
            spec, _ = data.draw(gen.specs_and_focus(opts, 5))
            self.do({"op": "new", "spec": spec})
            self.crit[len(self.pool.objs) - 1] = gen.critical_values(spec)

        @precondition(lambda self: len({o["sid"] for o in self.pool.objs}) < 2 and len(self.pool.objs) < 7)
        @rule(data=st.data())
        def new_rule(self, data):
            self.new(data)

        def pick(self, data, among=None):
            among = list(range(len(self.pool.objs))) if among is None else among
            return among[data.draw(st.integers(0, len(among) - 1))]

        def critof(self, i):
            return self.crit[self.pool.objs[i]["sid"]]

        @precondition(lambda self: self.pool.mutable())
        @rule(data=st.data())
        def fill(self, data):
            t = self.pick(data, self.pool.mutable())
            self.do({"op": "fill", "t": t, "row": data.draw(gen.rows(self.critof(t), True, focus=True)), "w": data.draw(st.sampled_from(W))})

        @precondition(lambda self: self.pool.mutable())
        @rule(data=st.data())
        def fill_again(self, data):
            # mutating rules are what exposes aliasing: give them twice the weight of the pure ones
            self.fill(data)

        @precondition(lambda self: any(self.pool.objs[i]["numpy_ok"] for i in self.pool.mutable()))
        @rule(data=st.data())
        def fillnp(self, data):
            t = self.pick(data, [i for i in self.pool.mutable() if self.pool.objs[i]["numpy_ok"]])
            n = data.draw(st.integers(0, 5))
            rows = [data.draw(gen.rows(self.critof(t), True, none_cats=False, focus=True)) for _ in range(n)]
            if self.pool.objs[t]["scalar_ok"] and data.draw(st.booleans()):
                w = None
            else:
                w = [data.draw(st.sampled_from((1.0, 1.0, 0.0, 0.5, 2.0))) for _ in range(n)]
            self.do({"op": "fillnp", "t": t, "rows": rows, "w": w})

        @rule(data=st.data())
        def iadd(self, data):
            a = self.pick(data)
            self.do({"op": "iadd", "a": a, "b": self.pick(data, self.pool.partners(a))})

        @precondition(lambda self: len(self.pool.objs) < 9)
        @rule(data=st.data())
        def add(self, data):
            a = self.pick(data)
            self.do({"op": "add", "a": a, "b": self.pick(data, self.pool.partners(a))})

        @precondition(lambda self: len(self.pool.objs) < 9)
        @rule(data=st.data())
        def mul(self, data):
            self.do({"op": "mul", "a": self.pick(data), "f": data.draw(st.sampled_from(FACTORS)), "side": data.draw(st.sampled_from("lr"))})

        @precondition(lambda self: len(self.pool.objs) < 9)
        @rule(data=st.data(), how=st.sampled_from(("zero", "copy", "copy", "reload", "immutable")))
        def derive(self, data, how):
            self.do({"op": how, "a": self.pick(data)})

        @rule(data=st.data(), how=st.sampled_from(("tojson", "hash", "repr", "accessors", "dumps")))
        def observe(self, data, how):
            self.do({"op": how, "a": self.pick(data)})

        @rule(data=st.data())
        def compare(self, data):
            self.do({"op": "eq", "a": self.pick(data), "b": self.pick(data)})

        def teardown(self):
            if not col.failing:
                case = {"mode": "history", "ops": self.ops}
                specs = [o["spec"] for o in self.pool.objs[:3]]
                labels = ["mode:history"] + sorted({"kind:" + k for s in specs for k in kinds(s)}) + sorted({"op:" + op["op"] for op in self.ops})
                col.record(case, {"nontrivial": self.pool.mutated_after, "labels": labels})
            else:
                col.shrink_evaluations += 1

    Machine.steps = 50 if thorough else 25
    return Machine


def worker_run(tier, seed, examples, col):
    from ..run import default_worker_run  # noqa: PLC0415
    from ..stateful import run_machine  # noqa: PLC0415

    mod = sys.modules[__name__]
    default_worker_run(mod, tier, seed, examples * 2, col)
    run_machine(mod, make_machine(tier, col), seed, examples, col)
