"""C04 - JSON serialisation is lossless, strict and yields a fully usable container (round trip)."""

import json
import os
import shutil
import tempfile

from hypothesis import strategies as st

from .. import gen, norm, states, walk
from ..common import lib
from ..core import Violation, require
from ..spec import build, child_specs, kinds, qexpr, walk_spec

ID = "C04"
BUDGET = {"quick": (4, 400), "thorough": (16, 5000)}
FUZZ = {"jobs": 8, "runs": 40000, "max_len": 4096, "timeout_s": 600}
TECHNIQUE = "property-based round-trip testing (Hypothesis; thorough tier also coverage-guided via Atheris)"
RULE = (
    "Generated: a tree spec with every primitive in every child/flow slot (sparse and centrally-binned aggregators in "
    "underflow/overflow/nanflow, sparse containers with non-Count contents left empty), named and unnamed quantities, "
    "category / label keys incl. the argument names of the ed() constructors, and a state reached by fills, +, * and "
    "copy (contents incl. NaN, +-inf, negative sparse indexes).  Oracle: json.dumps(doc, allow_nan=False) succeeds; "
    "fromJson(doc), fromJsonString(toJsonString()) and fromJsonFile(toJsonFile()) each re-serialise to a document equal "
    "to doc as a JSON value; toImmutable() == reload == second reload; for op in {r+h, h+r, r+r, r*f, f*r, r.zero(), "
    "r.copy(), fromJson(r.toJson())} the result's content equals the same op on the original.  Non-trivial: the "
    "document holds a non-finite number, an empty sparse container or nesting depth >= 2, and the state was reached by "
    ">= 1 positive fill; distinct by sha1 of the case."
)
ASSUMPTIONS = [
    "Python's json module is a correct JSON encoder/decoder",
    "Count transforms are not part of the serialised content (by design) and are not generated here",
    "Deviate's variance is compared with a tolerance after reload (ed() recomputes variance*entries)",
]


def strategy(tier):
    thorough = tier == "thorough"
    opts = gen.TreeOpts(max_depth=4 if thorough else 3, cat_cols=("s", "s", "s", "s", "s", "b"), flow_odds=3)

    @st.composite
    def cases(draw):
        spec, focus = draw(gen.specs_and_focus(opts, 8))
        rec = draw(gen.recipes(spec, max_rows=30 if thorough else 12, reload_ok=False, focus=focus, inf_weights=True))
        if any(s_["k"] in ("Fraction", "Select") and s_["q"].get("col") == "w" for _, s_ in walk_spec(spec)) and draw(st.integers(0, 2)) == 0:
            # a weight-valued cut whose passing weight adds up to the total weight although numerator and denominator
            # hold different data: cut values 2 and 0 in turn, unit weights, an even number of rows
            fills = rec["fills"][: 2 * (len(rec["fills"]) // 2)]
            for i_, rw in enumerate(fills):
                rw[0] = dict(rw[0], w=2.0 if i_ % 2 == 0 else 0.0)
                rw[1] = 1.0
            rec["fills"] = fills
        return {"spec": spec, "state": rec, "f": draw(st.sampled_from((2.0, 0.5, 3.0)))}

    return cases()


def qname(q):
    """The name histogrammar gives a rendered quantity (None for an anonymous lambda)."""
    fl = q.get("fl", "lambda")
    if fl in ("named", "named_str"):
        return q.get("name") or "nm_" + qexpr(q).replace(" ", "")
    if fl == "named_cached":
        return q.get("name") or "nc_" + qexpr(q).replace(" ", "")
    if fl in ("str", "cached_str"):
        return qexpr(q)
    if fl == "def":
        return "q_" + "_".join(q.get("cols", [q.get("col", "q")]))
    return None


def expected_names(spec, path=()):
    """[(path into the typed document of a FRESH tree, key, expected name)] following the serialisation rule: a
    fragment written with suppressName (the bins of a binning node, a Fraction's parts) has its name in the parent's
    '<slot>:name'; everything else carries its own 'name'.  Templates of sparse containers have no instance in a fresh
    tree: their name is only visible as the parent's 'bins:name'."""
    out = []
    k = spec["k"]

    if not path and "q" in spec:
        out.append(((), "name", qname(spec["q"])))
    for slot, key, child in child_specs(spec):
        cq = qname(child["q"]) if "q" in child else None
        if k == "Bin" and slot == "value":
            out.append((path, "values:name", cq))
            out += [t for t in expected_names(child, path + ("values", 0)) if t[0] != path + ("values", 0) or t[1] != "name"]
        elif k in ("SparselyBin", "Categorize") and slot == "value":
            out.append((path, "bins:name", cq))
        elif k in ("CentrallyBin", "IrregularlyBin", "Stack") and slot == "value":
            out.append((path, "bins:name", cq))
            cp = path + ("bins", 0, "data")
            out += [t for t in expected_names(child, cp) if t[0] != cp or t[1] != "name"]
        elif k == "Fraction" and slot == "value":
            out.append((path, "sub:name", cq))
            cp = path + ("numerator",)
            out += [t for t in expected_names(child, cp) if t[0] != cp or t[1] != "name"]
        else:
            if slot in ("underflow", "overflow", "nanflow"):
                cp = path + (slot,)
            elif slot == "cut":
                cp = path + ("data",)
            else:  # collections
                cp = path + ("data", key)
            if "q" in child:
                out.append((cp, "name", cq))
            out += [t for t in expected_names(child, cp) if t[0] != cp or t[1] != "name"]
    return out


def jdiff(a, b, path=(), out=None, limit=12):
    """Differences between two JSON values (dict order ignored, 3 == 3.0)."""
    if out is None:
        out = []
    if len(out) >= limit:
        return out
    if isinstance(a, dict) and isinstance(b, dict):
        for k in sorted(set(a) | set(b), key=str):
            if k not in a:
                out.append((path + (k,), "<missing>", b[k], b))
            elif k not in b:
                out.append((path + (k,), a[k], "<missing>", a))
            else:
                jdiff(a[k], b[k], path + (k,), out, limit)
    elif isinstance(a, list) and isinstance(b, list):
        if len(a) != len(b):
            out.append((path, f"<list {len(a)}>", f"<list {len(b)}>", None))
        else:
            for i, (x, y) in enumerate(zip(a, b)):
                jdiff(x, y, path + (i,), out, limit)
    elif isinstance(a, bool) or isinstance(b, bool) or isinstance(a, str) or isinstance(b, str) or a is None or b is None:
        if type(a) is not type(b) or a != b:
            out.append((path, a, b, None))
    elif a != b:
        out.append((path, a, b, None))
    return out


def split_known_names(diffs):
    """Known finding c04-empty-sparse-bins-name: an *empty* SparselyBin/Categorize whose content type has a named
    quantity loses 'bins:name' on reload (there is no bin to carry it).  Recognised only as a 'bins:name' key missing on
    the reloaded side of a fragment whose 'bins' map is empty."""
    known, other = [], []
    for p, a, b, parent in diffs:
        if p and p[-1] == "bins:name" and b == "<missing>" and isinstance(parent, dict) and parent.get("bins") == {}:
            known.append((p, a, b))
        else:
            other.append((p, a, b))
    return known, other


def split_known_variance(diffs, wire):
    """Known finding c04-deviate-infinite-entries-variance: a Deviate whose entries are infinite serialises variance 0.0
    (varianceTimesEntries / inf) and reloads it as 0.0 * inf = NaN.  Recognised only at a 'variance' key that is 0.0
    before and 'nan' after, in a fragment whose 'entries' is 'inf'."""
    known, other = [], []
    for p, a, b in diffs:
        holder = wire
        try:
            for k in p[:-1]:
                holder = holder[k]
        except (KeyError, IndexError, TypeError):
            holder = None
        if p and p[-1] == "variance" and a == 0.0 and b == "nan" and isinstance(holder, dict) and holder.get("entries") == "inf":
            known.append((p, a, b))
        else:
            other.append((p, a, b))
    return known, other


def fmtj(ds):
    return "; ".join(f"{'/'.join(map(str, p))}: {x!r} vs {y!r}" for p, x, y in ds[:6])


def ndoc(h):
    return norm.norm(h.toJson(), names=False)


def _same_state(a, b):
    if a.keys() != b.keys():
        return False
    for k in a:
        x, y = a[k], b[k]
        if k == "mean" and isinstance(x, float) and isinstance(y, float):
            if abs(x - y) > 1e-9 * max(1.0, abs(x), abs(y)):
                return False
        elif x != y:
            return False
    return True


def has_nonfinite(doc):
    if isinstance(doc, dict):
        return any(has_nonfinite(v) for v in doc.values())
    if isinstance(doc, list):
        return any(has_nonfinite(v) for v in doc)
    return doc in ("nan", "inf", "-inf")


def has_empty_sparse(doc):
    if isinstance(doc, dict):
        if doc.get("bins") == {}:
            return True
        return any(has_empty_sparse(v) for v in doc.values())
    if isinstance(doc, list):
        return any(has_empty_sparse(v) for v in doc)
    return False


def check(case):  # noqa: PLR0915
    hg = lib()
    F = hg.Factory
    spec, f = case["spec"], case["f"]
    boolcat = any(s["k"] == "Categorize" and s["q"]["col"] == "b" for _, s in walk_spec(spec))
    h = states.realize(spec, case["state"])
    doc = h.toJson()
    try:
        text = json.dumps(doc, allow_nan=False)
    except ValueError as e:
        raise Violation("not-json-compliant", f"toJson() holds a value json.dumps(allow_nan=False) refuses: {e}", {"what": "allow_nan"}) from None

    # quantity names: the document of a fresh tree carries exactly the names the quantities were given
    fresh = norm.norm(build(spec).toJson())
    for path, key, want in expected_names(spec):
        holder = fresh
        for p_ in path:
            holder = holder[p_]
        got = holder.get(key)
        require(got == want, "name-wrong", f"document of a fresh tree: {'/'.join(map(str, path)) or '<root>'}[{key!r}] is {got!r}, the quantity is named {want!r}", {"key": key})
    require(json.loads(text) == json.loads(json.dumps(json.loads(text))), "json-unstable", "document does not survive json")
    wire = json.loads(text)

    known = []
    known_var = []
    tmpdir = tempfile.mkdtemp(prefix="vp_c04_")
    try:
        path = os.path.join(tmpdir, "h.json")
        h.toJsonFile(path)
        routes = {
            "fromJson(dict)": lambda: F.fromJson(doc),
            "fromJson(str)": lambda: F.fromJson(text),
            "fromJsonString(toJsonString())": lambda: F.fromJsonString(h.toJsonString()),
            "fromJsonFile(toJsonFile())": lambda: F.fromJsonFile(path),
        }
        reloads = {}
        for name, fn in routes.items():
            r = fn()
            reloads[name] = r
            walk.require_views(r, name)
            back = json.loads(json.dumps(r.toJson(), allow_nan=False))
            kn, other = split_known_names(jdiff(wire, back))
            kv, other = split_known_variance(other, wire)
            require(not other, "roundtrip-differs", lambda: f"{name} re-serialises differently: {fmtj(other)}")  # noqa: B023
            known += kn
            known_var += kv
    finally:
        shutil.rmtree(tmpdir, ignore_errors=True)

    if known_var:
        raise Violation(
            "deviate-infinite-entries-variance",
            f"a Deviate with infinite entries does not round-trip its variance: {fmtj(known_var)}",
            {"key": "variance", "entries": "inf"},
        )
    r = reloads["fromJson(dict)"]
    # content read from the live attributes of h and of its reload (independent of the serialiser: a document that is
    # stably wrong round-trips perfectly)
    sh, sr = walk.attr_state(h), walk.attr_state(r)
    bad = [(p_, sh[p_], sr.get(p_)) for p_ in sh if p_ in sr and not _same_state(sh[p_], sr[p_])]
    require(not bad, "reload-content-differs", lambda: f"live attributes of the reload differ from the original's at {bad[0][0] or '<root>'}: {bad[0][1]} vs {bad[0][2]}")
    r2 = F.fromJson(r.toJson())
    require(h.toImmutable() == r, "immutable-not-equal", "h.toImmutable() != fromJson(h.toJson())")
    require(r == r2 and r2 == r and not (r != r2), "reload-not-equal", "reload != reload of reload")
    d = jdiff(json.loads(json.dumps(r.toJson())), json.loads(json.dumps(r2.toJson())))
    require(not d, "second-roundtrip-differs", lambda: f"second round trip differs: {fmtj([x[:3] for x in d])}")

    # interchangeability under + * zero copy and re-serialisation
    pol = norm.Policy(exact=True, scale=1e6)
    ops = [
        ("r+h", lambda: r + h, lambda: h + h),
        ("h+r", lambda: h + r, lambda: h + h),
        ("r+r", lambda: r + r, lambda: h + h),
        ("r*f", lambda: r * f, lambda: h * f),
        ("f*r", lambda: f * r, lambda: f * h),
        ("r.zero()", lambda: r.zero(), lambda: h.zero()),
        ("r.copy()", lambda: r.copy(), lambda: h.copy()),
        ("fromJson(r.toJson())", lambda: F.fromJson(r.toJson()), lambda: h),
        ("(r+h).toJson roundtrip", lambda: F.fromJson((r + h).toJson()), lambda: h + h),
    ]
    for name, fr, fh in ops:
        got, want = fr(), fh()
        walk.require_views(got, name)
        dd = norm.diff(ndoc(want), ndoc(got), pol)
        if dd and boolcat and name in ("r+h", "h+r", "(r+h).toJson roundtrip"):
            raise Violation(
                "bool-category-reload",
                f"{name}: bool category keys come back from JSON as the strings 'True'/'False' and no longer merge with the live bool keys: {norm.fmt(dd[:3])}",
                {"keys": "bool"},
            )
        require(not dd, "not-interchangeable", lambda: f"{name} differs from the same operation on the original: {norm.fmt(dd)}")  # noqa: B023
        json.dumps(got.toJson(), allow_nan=False)

    if known:
        raise Violation(
            "empty-sparse-bins-name",
            f"empty sparse container loses bins:name on reload: {fmtj(known)}",
            {"key": "bins:name", "bins": "empty"},
        )

    filled = any(w == w and w > 0 for _, w in states.stream_of(case["state"]))
    from ..spec import depth  # noqa: PLC0415

    labels = ["kind:" + k for k in kinds(spec)]
    nf, es = has_nonfinite(doc), has_empty_sparse(doc)
    if nf:
        labels.append("nonfinite")
    if es:
        labels.append("empty-sparse")
    if "scale" in case["state"]:
        labels.append("scaled")
    if "merge" in case["state"]:
        labels.append("merged")
    return {"nontrivial": bool(filled and (nf or es or depth(spec) >= 2)), "labels": labels}
