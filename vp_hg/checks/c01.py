"""C01 - merge is a commutative-monoid homomorphism (metamorphic, library vs library)."""

import pickle

from hypothesis import strategies as st

from .. import gen, model, norm, walk
from ..common import lib
from ..core import require
from ..spec import build, kinds, relabeled, walk_spec

ID = "C01"
BUDGET = {"quick": (4, 500), "thorough": (16, 6000)}
RULE = (
    "Generated: a tree spec over all 19 primitives (depth <= 3 quick / 4 thorough, every primitive in every child/flow "
    "slot), a stream of 0..30 (quick) / 0..60 (thorough) weighted rows drawn from the tree's critical-value alphabets "
    "(edges, midpoints, thresholds +-k ulps, NaN, +-inf; weights incl. 0, negative, NaN), sorted cut points with "
    "repetitions (1..6 chunks, empty chunks allowed), a permutation of the partial results, a reduction schedule (any "
    "parenthesisation), how the empty partials are made (constructor / zero() / copy() / constructor with the Label "
    "keys given in the opposite order) and the API (fill vs "
    "histogrammar.defs.increment; + vs combine vs accumulating intermediate results with +=).  Oracle: fill-all == reduce(partials); B+zero == B == zero+B; "
    "P+Q == Q+P; (P+Q)+R == P+(Q+R); zero() has the document of a fresh tree.  One case in six is a *vectorised* partition: a table "
    "generated as C03 generates it (dict / record array / DataFrame / bare array, float64 / float32 / int64 / strided / read-only "
    "columns, omitted / scalar / array weights), filled into one tree by one or two fill.numpy calls, against the sum in a generated "
    "order (+ or +=) of fresh trees each filled by fill.numpy with one chunk.  Non-trivial: >= 2 chunks each holding "
    "a positively weighted row and the rows reach >= 2 different leaves; distinct by sha1 of the canonical case."
)
ASSUMPTIONS = [
    "toJson() exposes all aggregated content (C04 checks the serialiser itself)",
    "exactness flag is computed by the harness's rational model: exact comparisons only when every partial sum is representable",
    "means and variances are compared with rel 1e-9 + 1e-9*scale^p (floating-point rounding is allowed by the statement)",
]


def strategy(tier):
    thorough = tier == "thorough"
    opts = gen.TreeOpts(max_depth=4 if thorough else 3, count_transforms=True, cat_cols=("s", "s", "b"))

    @st.composite
    def cases(draw):
        spec, focus = draw(gen.specs_and_focus(opts, 4))
        stream, _ = draw(gen.streams(spec, max_rows=60 if thorough else 30, focus=focus))
        cuts = draw(gen.cuts(len(stream)))
        k = len(cuts) + 1
        perm = draw(st.permutations(list(range(k))))
        sched = draw(st.lists(st.integers(0, 5), min_size=k - 1, max_size=k - 1))
        return {
            "spec": spec,
            "stream": [[r, w] for r, w in stream],
            "cuts": cuts,
            "perm": list(perm),
            "sched": sched,
            "fresh": draw(st.sampled_from(("build", "zero", "copy"))),
            # content-preserving detours a partial result may take before it is merged ("every reachable state")
            "detour": [draw(st.sampled_from(("none", "none", "none", "copy", "reload", "pickle", "times1", "plus-zero"))) for _ in range(k)],
            # a partial result may come from a tree whose Label keys were given in another order
            "relabel": [draw(st.integers(0, 3)) == 0 for _ in range(k)],
            "fill_api": draw(st.sampled_from(("fill", "fill", "increment"))),
            "merge_api": draw(st.sampled_from(("+", "+", "combine", "+="))),
        }

    @st.composite
    def vectorised(draw):
        # the same law for partial results made by the vectorised fill: the table is C03's (every data representation,
        # array flavour and weight mode it generates), the partition its cut points
        from . import c03  # noqa: PLC0415

        c3 = draw(c03.strategy(tier))
        k = len(gen.split(list(range(len(c3["batch"]))), c3["cuts"]))
        return {"mode": "vectorised", "c3": c3, "perm": list(draw(st.permutations(list(range(k))))), "merge_api": draw(st.sampled_from(("+", "+", "+="))),
                # the whole table goes into its tree in one call, or streamed in two
                "whole_calls": draw(st.sampled_from((1, 1, 2)))}

    @st.composite
    def mixed(draw):
        # (st.one_of would merge the repeated alternatives into one and give the vectorised family half of the cases)
        return draw(vectorised()) if draw(st.integers(0, 5)) == 0 else draw(cases())

    return mixed()


def check_vectorised(case):
    """fill.numpy of the whole table == the sum, in any order, of fresh trees each filled by fill.numpy with one chunk."""
    import numpy as np  # noqa: PLC0415

    from . import c03  # noqa: PLC0415

    c3 = case["c3"]
    spec, rows = c3["spec"], c3["batch"]
    n = len(rows)
    wmode, w = c3["wmode"], c3["w"]
    roww = [1.0] * n if wmode == "omitted" else [w] * n if wmode in ("scalar", "zero") else list(w)
    labels = ["mode:vectorised", "rep:" + c3["rep"], "weights:" + wmode] + ["kind:" + k for k in kinds(spec)]
    if any(isinstance(r.get("w"), float) and r["w"] in (float("inf"), float("-inf")) for r in rows):
        # infinite cut weights: inf - inf and inf / inf differ legitimately between one pass and merged partial results
        return {"nontrivial": False, "labels": labels + ["skipped:infinite-cut-weight"]}
    ref = model.evaluate(spec, list(zip(rows, roww)))
    pol = norm.Policy(exact=ref.exact, scale=1.0 + ref.notes["maxabs"])
    bare = c3["rep"] == "bare"
    flavour = c3.get("flavour", "f64")

    def filled(idx, h=None):
        h = h or build(spec, c03.bare_qhook if bare else None)
        data = c03.make_data(c3["rep"], [rows[i] for i in idx], flavour)
        if wmode == "array":
            h.fill.numpy(data, np.array([roww[i] for i in idx], dtype=np.float64))
        elif wmode == "omitted":
            h.fill.numpy(data)
        else:
            h.fill.numpy(data, w)
        return h

    def ndoc(h):
        return norm.strip_empty_types(norm.norm(h.toJson(), drop_zero=True))

    if case.get("whole_calls", 1) == 2 and n >= 2:
        whole = filled(list(range(n // 2, n)), filled(list(range(n // 2))))
        labels.append("whole-in-two-calls")
    else:
        whole = filled(list(range(n)))
    chunks = gen.split(list(range(n)), c3["cuts"])
    partials = [filled(ch) for ch in chunks]
    before = [ndoc(p_) for p_ in partials]
    order = [i for i in case["perm"] if i < len(partials)]
    acc = partials[order[0]]
    if case["merge_api"] == "+=":
        acc = acc.copy()
    for i in order[1:]:
        if case["merge_api"] == "+=":
            acc += partials[i]
        else:
            acc = acc + partials[i]
    d = norm.diff(ndoc(whole), ndoc(acc), pol, limit=12)
    require(not d, "partition-vectorised", lambda: f"fill.numpy of the whole table ({c3['rep']}, weights {wmode}) differs from the sum of {len(partials)} partial results filled by fill.numpy (order {order}, {case['merge_api']}): {norm.fmt(d[:6])}")
    for i, p_ in enumerate(partials):
        require(norm.same(before[i], ndoc(p_), norm.BITEXACT), "operand-mutated", f"merging changed partial result {i}")
    positive = [any(roww[i] == roww[i] and roww[i] > 0 for i in ch) for ch in chunks]
    return {"nontrivial": sum(positive) >= 2, "labels": labels + [f"chunks:{len(chunks)}", "exact" if ref.exact else "inexact"]}


def _fill(h, chunk, api):
    from histogrammar.defs import increment  # noqa: PLC0415

    for row, w in chunk:
        if api == "increment" and w == 1.0:
            increment(h, row)
        else:
            h.fill(row, w)


def _merge(a, b, api):
    if api == "combine":
        from histogrammar.defs import combine  # noqa: PLC0415

        return combine(a, b)
    return a + b


def doc(h, names=True):
    return norm.norm(h.toJson(), names=names)


def check(case):
    lib()
    if case.get("mode") == "vectorised":
        return check_vectorised(case)
    spec, stream = case["spec"], [(r, w) for r, w in case["stream"]]
    ref = model.evaluate(spec, stream)
    pol = norm.Policy(exact=ref.exact, scale=1.0 + ref.notes["maxabs"])

    whole = build(spec)
    _fill(whole, stream, case["fill_api"])
    dwhole = doc(whole)

    chunks = gen.split(stream, case["cuts"])
    template = build(spec)
    partials = []
    relabel = case.get("relabel", [])
    for n_, ch in enumerate(chunks):
        if n_ < len(relabel) and relabel[n_]:
            h = build(relabeled(spec))
        elif case["fresh"] == "zero":
            h = template.zero()
        elif case["fresh"] == "copy":
            h = template.copy()
        else:
            h = build(spec)
        _fill(h, ch, case["fill_api"])
        partials.append(h)
    hg = lib()
    transforms = any(s_["k"] == "Count" and s_.get("transform") for _, s_ in walk_spec(spec))
    boolcat = any(s_["k"] == "Categorize" and s_["q"]["col"] == "b" for _, s_ in walk_spec(spec))  # known C04 finding
    for i, how in enumerate(case.get("detour", [])[: len(partials)]):
        if how == "copy":
            partials[i] = partials[i].copy()
        elif how == "pickle":
            partials[i] = pickle.loads(pickle.dumps(partials[i]))
        elif how == "plus-zero":
            partials[i] = partials[i].zero() + partials[i]
        elif how == "times1" and not transforms:
            partials[i] = partials[i] * 1.0
        elif how == "reload" and not boolcat:  # (a reloaded partial has lost its Count transforms - by design - but its content is final)
            partials[i] = hg.Factory.fromJson(partials[i].toJson())
    dparts = [doc(p) for p in partials]

    items = [partials[i] for i in case["perm"]]
    owned = [False] * len(items)  # intermediate results belong to the reduction and may be accumulated into with +=
    for s in case["sched"]:
        if len(items) < 2:
            break
        i = s % (len(items) - 1)
        if case["merge_api"] == "+=" and owned[i]:
            acc = items[i]
            acc += items[i + 1]
            items[i : i + 2] = [acc]
        else:
            items[i : i + 2] = [_merge(items[i], items[i + 1], case["merge_api"])]
        owned[i : i + 2] = [True]
    reduced = items[0]
    walk.require_views(reduced, "the reduction")
    if "reload" in case.get("detour", []):
        # a JSON reload keeps content but may lose quantity names (C04's business): compare content only
        dwhole = doc(whole, names=False)
        d = norm.diff(dwhole, doc(reduced, names=False), pol)
    else:
        d = norm.diff(dwhole, doc(reduced), pol)
    require(not d, "partition", lambda: f"fill-all differs from the reduction of {len(chunks)} chunks: {norm.fmt(d)}")

    # merging must not have changed the partial results
    for i, p in enumerate(partials):
        dd = norm.diff(dparts[i], doc(p), norm.BITEXACT)
        require(not dd, "operand-mutated", lambda: f"partial {i} changed by the reduction: {norm.fmt(dd)}")

    nm = "reload" not in case.get("detour", [])  # a reload may lose names of empty sparse containers (C04)
    # identity
    z = reduced.zero()
    dz = norm.diff(doc(build(spec), nm), doc(z, nm), norm.BITEXACT)
    require(not dz, "zero-not-empty", lambda: f"zero() differs from a fresh tree: {norm.fmt(dz)}")
    dred = doc(reduced, nm)
    for name, r in (("B+zero", reduced + z), ("zero+B", z + reduced)):
        di = norm.diff(dred, doc(r, nm), norm.BITEXACT)
        require(not di, "identity", lambda: f"{name} != B: {norm.fmt(di)}")  # noqa: B023

    # commutativity / associativity on partials
    if len(partials) >= 2:
        p, q = partials[0], partials[-1]
        dc = norm.diff(doc(p + q, nm), doc(q + p, nm), pol)
        require(not dc, "commutativity", lambda: f"P+Q != Q+P: {norm.fmt(dc)}")
    if len(partials) >= 3:
        p, q, r = partials[0], partials[1], partials[2]
        da = norm.diff(doc((p + q) + r, nm), doc(p + (q + r), nm), pol)
        require(not da, "associativity", lambda: f"(P+Q)+R != P+(Q+R): {norm.fmt(da)}")

    live = sum(1 for ch in chunks if any(w == w and w > 0 for _, w in ch))
    nontrivial = live >= 2 and ref.notes["routed_leaves"] >= 2
    labels = ["kind:" + k for k in kinds(spec)]
    labels.append("exact" if ref.exact else "inexact")
    labels.append(f"chunks:{len(chunks)}")
    if any(not ch for ch in chunks):
        labels.append("empty-chunk")
    if ref.notes["nonfinite"]:
        labels.append("nonfinite-quantity")
    if ref.notes["edge_hits"]:
        labels.append("edge-hit")
    return {"nontrivial": nontrivial, "labels": labels}
