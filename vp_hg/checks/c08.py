"""C08 - scaling by a factor equals refilling with every weight multiplied by it (metamorphic)."""

import json
import math
import pickle

from hypothesis import strategies as st

from .. import gen, model, norm, states, walk
from ..common import lib
from ..core import require
from ..spec import build, kinds

ID = "C08"
BUDGET = {"quick": (4, 400), "thorough": (16, 5000)}
TECHNIQUE = "property-based metamorphic testing (Hypothesis): h*f vs refill with scaled weights, algebraic laws of *"
RULE = (
    "Generated: a tree spec, a weighted stream, a factor f from {positive dyadics, 1, 1.0, int 2, 1/3, 0, -1, NaN, 2**-60, 2**-200, 2**60, numpy.float64(0.5), numpy.int64(2)}, a "
    "second factor, a second stream (distributivity), a continuation (further fills) and whether the tree is live or "
    "reloaded from JSON.  Oracle: f*h == h*f bit for bit; for f <= 0 or NaN the document equals h.zero()'s; for f > 0 "
    "h*f equals a twin filled with every weight multiplied by f (entries/sums exact when representable, tolerance on "
    "moments only); (h*a)*b == h*(a*b); h*1 == h; h*2 == h+h; (a+b)*f == a*f + b*f; fromJson((h*f).toJson()) == "
    "fromJson(h.toJson())*f; the scaled object then fills exactly like the scaled-refill twin, merges with h, hashes, "
    "serialises and pickles; a Count with a non-identity transform refuses scaling with ContainerException.  "
    "Non-trivial: f > 0, f != 1, non-empty state and a continuation that fills; distinct by sha1 of the case."
)
ASSUMPTIONS = [
    "fill itself is checked against the reference model by C02; toJson() exposes all content",
    "weights*f is computed in binary64 by the harness; exact comparisons only when the rational model says every partial sum is representable",
]

# (tiny and huge positive factors are positive factors: 2**-60 * entries is far above the smallest float; numpy scalars
# are what arithmetic on array elements yields)
FACTORS = (2.0, 0.5, 1.0, 1, 2, 3.0, 0.125, 1.0 / 3.0, 0.0, -1.0, float("nan"), 4.0, 2.0**-60, 2.0**-200, 2.0**60, "np.float64(0.5)", "np.int64(2)")


def strategy(tier):
    thorough = tier == "thorough"
    opts = gen.TreeOpts(max_depth=4 if thorough else 3, count_transforms=True)

    @st.composite
    def cases(draw):
        spec, focus = draw(gen.specs_and_focus(opts, 6))
        s1, _ = draw(gen.streams(spec, max_rows=30 if thorough else 14, focus=focus))
        s2, _ = draw(gen.streams(spec, max_rows=6, focus=focus))
        more, _ = draw(gen.streams(spec, max_rows=4, focus=focus))
        return {
            "spec": spec,
            "stream": [[r, w] for r, w in s1],
            "other": [[r, w] for r, w in s2],
            "more": [[r, w] for r, w in more],
            "f": draw(st.sampled_from(FACTORS)),
            "g": draw(st.sampled_from((2.0, 0.5, 3.0, 1.0 / 3.0, 0.25))),
            "reload": draw(st.integers(0, 4)) == 0,
            # the state may have been reached through a content-preserving detour
            "detour": draw(st.sampled_from(("none", "none", "none", "pickle", "copy", "plus-zero"))),
        }

    return cases()


def doc(h):
    return norm.norm(h.toJson())


def fill_all(h, stream, f=None):
    for row, w in stream:
        h.fill(row, w if f is None else w * f)
    return h


def check(case):  # noqa: PLR0915
    hg = lib()
    from histogrammar.defs import ContainerException  # noqa: PLC0415

    spec = case["spec"]
    stream = [(r, w) for r, w in case["stream"]]
    other = [(r, w) for r, w in case["other"]]
    more = [(r, w) for r, w in case["more"]]
    f, g = case["f"], case["g"]
    if isinstance(f, str):  # numpy scalar factors are stored by name in the (JSON) case
        import numpy as np  # noqa: PLC0415

        f_lib = {"np.float64(0.5)": np.float64(0.5), "np.int64(2)": np.int64(2)}[f]
        f = f_lib.item()  # the harness computes with the equal Python number; the library gets the numpy scalar
    else:
        f_lib = f
    h = fill_all(build(spec), stream)
    how = case.get("detour", "none")
    if how == "pickle":
        h = pickle.loads(pickle.dumps(h))
    elif how == "copy":
        h = h.copy()
    elif how == "plus-zero":
        h = h.zero() + h
    reloaded = case["reload"] and not states.has_transform(spec)  # a Count's transform is not serialised
    if reloaded:
        h = hg.Factory.fromJson(h.toJson())
    dh = doc(h)

    if states.has_transform(spec):
        # documented: a Count with a non-identity transform refuses scaling.  It is only certain to be reached
        # (for a positive factor) when it sits in a slot that always exists; templates of sparse containers and
        # non-positive factors (which short-circuit to zero()) never reach it.
        if must_refuse(spec):
            try:
                h * 2.0
            except ContainerException:
                return {"nontrivial": False, "labels": ["count-transform-refused"]}
            require(False, "transform-scaled", "a Count with a non-identity transform was scaled by 2.0 without ContainerException")
        return {"nontrivial": False, "labels": ["count-transform-unreached"]}

    positive = isinstance(f, (int, float)) and not (isinstance(f, float) and math.isnan(f)) and f > 0
    ref = model.evaluate(spec, stream)
    ref_scaled = model.evaluate(spec, [(r, w * f) for r, w in stream]) if positive else ref
    # exact comparisons need more than representable sums on either side: the products weight*factor (and
    # entries*factor) themselves must be exact, which holds for coarse dyadic weights and small dyadic factors only
    from fractions import Fraction  # noqa: PLC0415

    coarse = ref.notes.get("maxden", 1) <= 2**20 and ref_scaled.notes.get("maxden", 1) <= 2**30
    prods = positive and all(Fraction(w) * Fraction(f) == Fraction(w * f) for _, w in stream if w == w and w > 0)
    exact = ref.exact and ref_scaled.exact and coarse and (prods or not positive)
    scale = 1.0 + ref.notes["maxabs"]
    pol = norm.Policy(exact=exact, scale=scale)

    hs = h * f_lib
    rs = f_lib * h
    require(norm.same(dh, doc(h), norm.BITEXACT), "mul-mutated-operand", "h * f changed h")
    walk.require_views(hs, f"h*{f!r}")
    walk.require_views(rs, f"{f!r}*h")
    d = norm.diff(doc(hs), doc(rs), norm.BITEXACT)
    require(not d, "rmul-differs", lambda: f"f*h vs h*f: {norm.fmt(d)}")

    # whatever factor was drawn: every factor that is not positive empties this very state, from either side
    dz = doc(h.zero())
    for z in (0.0, 0, -0.0, -1.0, float("nan"), float("-inf")):
        for side, e in (("h*f", h * z), ("f*h", z * h)):
            d = norm.diff(dz, doc(e), norm.BITEXACT)
            require(not d, "nonpositive-factor-not-zero", lambda: f"{side} with f = {z!r} is not the empty aggregator: {norm.fmt(d)}")  # noqa: B023
    if not positive:
        d = norm.diff(doc(h.zero()), doc(hs), norm.BITEXACT)
        require(not d, "nonpositive-factor-not-zero", lambda: f"h*{f!r} is not the empty aggregator: {norm.fmt(d)}")
    else:
        twin = fill_all(build(spec), stream, f)
        if reloaded:  # the claim is about the reloaded object: reference = the reload of the scaled-refill twin
            twin = hg.Factory.fromJson(twin.toJson())
        d = norm.diff(doc(twin), doc(hs), pol)
        require(not d, "scale-vs-refill", lambda: f"h*{f!r} vs refill with weights*{f!r}: {norm.fmt(d)}")

        # multiplicativity
        fg_exact = exact and model.evaluate(spec, [(r, w * f * g) for r, w in stream]).exact and (f * g) * 1.0 == f * g
        polm = norm.Policy(exact=fg_exact and _dyadic(f) and _dyadic(g), scale=scale)
        d = norm.diff(doc((h * f) * g), doc(h * (f * g)), polm)
        require(not d, "not-multiplicative", lambda: f"(h*{f!r})*{g!r} vs h*({f!r}*{g!r}): {norm.fmt(d)}")

    # h*1 == h
    for one in (1, 1.0):
        d = norm.diff(dh, doc(h * one), norm.BITEXACT)
        require(not d, "times-one", lambda: f"h*{one!r} != h: {norm.fmt(d)}")  # noqa: B023
    # h*2 == h+h  (doubling is exact in binary64)
    d = norm.diff(doc(h + h), doc(h * 2), norm.Policy(exact=True, scale=scale))
    require(not d, "times-two", lambda: f"h*2 vs h+h: {norm.fmt(d)}")

    if positive:
        # distributivity over +
        b = fill_all(build(spec), other)
        refb = model.evaluate(spec, other)
        refab = model.evaluate(spec, [(r, w * f) for r, w in stream + other])
        pold = norm.Policy(exact=exact and refb.exact and refab.exact and model.evaluate(spec, stream + other).exact, scale=max(scale, 1.0 + refb.notes["maxabs"]))
        d = norm.diff(doc((h + b) * f), doc(h * f + b * f), pold)
        require(not d, "not-distributive", lambda: f"(a+b)*{f!r} vs a*f + b*f: {norm.fmt(d)}")
        # commutes with JSON round trips
        d = norm.diff(doc(hg.Factory.fromJson(hs.toJson())), doc(hg.Factory.fromJson(h.toJson()) * f), norm.Policy(exact=True, scale=scale))
        require(not d, "json-commute", lambda: f"fromJson((h*f).toJson()) vs fromJson(h.toJson())*f: {norm.fmt(d)}")

    # the scaled result remains a first-class aggregator
    hash(hs)
    json.dumps(hs.toJson(), allow_nan=False)
    pickle.loads(pickle.dumps(hs))
    merged = hs + h
    walk.require_views(merged, "(h*f) + h")
    require(
        norm.Policy(exact=False).close("entries", doc(merged)["entries"], doc(hs)["entries"] + dh["entries"]),
        "merge-after-scale",
        "entries of (h*f) + h is not the sum of the entries",
    )
    filled = False
    if not reloaded and positive:
        twin = fill_all(build(spec), stream, f)
        for row, w in more:
            hs.fill(row, w)
            twin.fill(row, w)
            filled = filled or (w == w and w > 0)
        ref_more = model.evaluate(spec, [(r, w * f) for r, w in stream] + more)
        d = norm.diff(doc(twin), doc(hs), norm.Policy(exact=exact and ref_more.exact, scale=max(scale, 1.0 + ref_more.notes["maxabs"])))
        require(not d, "fill-after-scale", lambda: f"filling h*{f!r} vs filling the scaled-refill twin: {norm.fmt(d)}")
        walk.require_views(hs, f"h*{f!r} after further fills")
        hash(hs)

    labels = ["kind:" + k for k in kinds(spec)]
    labels.append("factor:" + ("positive" if positive else "nonpositive-or-nan"))
    labels.append("exact" if exact else "inexact")
    if reloaded:
        labels.append("reloaded")
    nontrivial = positive and f != 1 and dh["entries"] > 0 and filled
    return {"nontrivial": bool(nontrivial), "labels": labels}


def must_refuse(spec):
    k = spec["k"]
    if k == "Count":
        return bool(spec.get("transform"))
    if k == "Bin":
        return any(must_refuse(spec[s]) for s in ("value", "underflow", "overflow", "nanflow"))
    if k in ("CentrallyBin", "IrregularlyBin", "Stack"):
        return must_refuse(spec["value"]) or must_refuse(spec["nanflow"])
    if k == "SparselyBin":
        return must_refuse(spec["nanflow"])
    if k == "Fraction":
        return must_refuse(spec["value"])
    if k == "Select":
        return must_refuse(spec["cut"])
    if k in ("Label", "UntypedLabel"):
        return any(must_refuse(s) for s in spec["pairs"].values())
    if k in ("Index", "Branch"):
        return any(must_refuse(s) for s in spec["values"])
    return False


def _dyadic(x):
    m, _ = math.frexp(float(x))
    return (m * 2**12) % 1 == 0
