"""C17 - user-function wrappers preserve behaviour: named / cached / serializable / string expressions."""

import itertools
import math
import types

import numpy as np
from hypothesis import strategies as st

from .. import norm
from ..common import lib
from ..core import require

ID = "C17"
BUDGET = {"quick": (4, 600), "thorough": (16, 8000)}
TECHNIQUE = "property-based testing (Hypothesis): wrapper algebra, model-based call histories for the cache, expression grammar vs own evaluator"
RULE = (
    "Three generated families.  (algebra) a multiset of wrapper applications from {named(n), cached, serializable} on a "
    "lambda, a def function or a string (and, before it, on a sibling function of the same bytecode with another "
    "constant), applied in every order: all orders that the library accepts give == wrappers "
    "with the same name, CachedFcn iff cached was applied, re-applying cached / serializable is idempotent, a second "
    "name raises ValueError.  (history) a call history on a wrapped (cached or not, named or not) counting function: "
    "arguments from a pool of scalars (1, 1.0, 2.5), equal-but-distinct and different arrays, different same-shaped "
    "views of one buffer (consecutive chunks, columns of one record array), NaN where a value stood before, lists and "
    "tuples of different lengths, fresh dict records of "
    "scalars and of arrays, keyword arguments, repeated and changing in any interleaving: every call returns exactly "
    "(value and type) what the bare function returns and the underlying function is never called more often than the "
    "wrapper.  (expression) an expression AST over fields x, y, z (+ - * /, unary minus, comparisons, and/or/not, "
    "conditional expression, math functions) rendered to a string quantity and interpreted by the harness's own "
    "evaluator: equal values (or the same exception type) on dict records, attribute records, bare scalars for "
    "single-variable expressions (interleaved with dict records), and dict-of-arrays / record array / DataFrame for "
    "the operator-only subset; Bin / Sum / Select / Categorize built from the string and from the equivalent function "
    "have identical documents up to name.  Non-trivial: a history with a changed argument after a repeat, an "
    "expression of depth >= 2 on >= 2 record representations, an algebra case with >= 2 wrappers; distinct by sha1."
)
ASSUMPTIONS = [
    "arguments are never mutated in place between calls (identity caching of a mutated object is inherent to the documented design)",
    "for auto-named inputs (strings, def functions) `named` after another wrapper raises 'two names' - treated as the documented second-name rule, not asserted either way",
    "the harness evaluator implements Python's float / bool semantics for the generated grammar",
]

# ---------------------------------------------------------------------------------------------------------
# expression grammar

FIELDS = ("x", "y", "z")
BINOPS = ("+", "-", "*", "/")
CMPOPS = ("<", "<=", ">", ">=", "==", "!=")
FUNCS = ("sqrt", "fabs", "floor", "exp")
CONSTS = (0.0, 1.0, 2.0, 0.5, -1.0, 3.0)


@st.composite
def exprs(draw, depth, fields=FIELDS, vector=False, boolean=False):
    if depth <= 0 or (not boolean and draw(st.integers(0, 3)) == 0):
        if boolean:
            return ("cmp", draw(st.sampled_from(CMPOPS)), ("field", draw(st.sampled_from(fields))), ("const", draw(st.sampled_from(CONSTS))))
        if draw(st.integers(0, 2)) == 0:
            return ("const", draw(st.sampled_from(CONSTS)))
        return ("field", draw(st.sampled_from(fields)))
    if boolean:
        kind = draw(st.sampled_from(("cmp", "cmp", "and", "or", "not") if not vector else ("cmp",)))
        if kind == "cmp":
            return ("cmp", draw(st.sampled_from(CMPOPS)), draw(exprs(depth - 1, fields, vector)), draw(exprs(depth - 1, fields, vector)))
        if kind == "not":
            return ("not", draw(exprs(depth - 1, fields, vector, True)))
        return (kind, draw(exprs(depth - 1, fields, vector, True)), draw(exprs(depth - 1, fields, vector, True)))
    kinds = ("bin", "bin", "bin", "neg") if vector else ("bin", "bin", "bin", "neg", "func", "cond")
    kind = draw(st.sampled_from(kinds))
    if kind == "bin":
        return ("bin", draw(st.sampled_from(BINOPS)), draw(exprs(depth - 1, fields, vector)), draw(exprs(depth - 1, fields, vector)))
    if kind == "neg":
        return ("neg", draw(exprs(depth - 1, fields, vector)))
    if kind == "func":
        return ("func", draw(st.sampled_from(FUNCS)), draw(exprs(depth - 1, fields, vector)))
    return ("cond", draw(exprs(depth - 1, fields, vector, True)), draw(exprs(depth - 1, fields, vector)), draw(exprs(depth - 1, fields, vector)))


def render(e):
    t = e[0]
    if t == "const":
        return repr(e[1])
    if t == "field":
        return e[1]
    if t == "bin":
        return f"({render(e[2])} {e[1]} {render(e[3])})"
    if t == "neg":
        return f"(-{render(e[1])})"
    if t == "func":
        return f"{e[1]}({render(e[2])})"
    if t == "cmp":
        return f"({render(e[2])} {e[1]} {render(e[3])})"
    if t in ("and", "or"):
        return f"({render(e[1])} {t} {render(e[2])})"
    if t == "not":
        return f"(not {render(e[1])})"
    if t == "cond":
        return f"({render(e[2])} if {render(e[1])} else {render(e[3])})"
    if t == "str":
        return repr(e[1])
    raise ValueError(t)


def evaluate(e, get):  # noqa: PLR0911, PLR0912
    t = e[0]
    if t == "const" or t == "str":
        return e[1]
    if t == "field":
        return get(e[1])
    if t == "bin":
        a, b = evaluate(e[2], get), evaluate(e[3], get)
        if e[1] == "+":
            return a + b
        if e[1] == "-":
            return a - b
        if e[1] == "*":
            return a * b
        return a / b
    if t == "neg":
        return -evaluate(e[1], get)
    if t == "func":
        return getattr(math, e[1])(evaluate(e[2], get))
    if t == "cmp":
        a, b = evaluate(e[2], get), evaluate(e[3], get)
        return {"<": a < b, "<=": a <= b, ">": a > b, ">=": a >= b, "==": a == b, "!=": a != b}[e[1]]
    if t == "and":
        return evaluate(e[1], get) and evaluate(e[2], get)
    if t == "or":
        return evaluate(e[1], get) or evaluate(e[2], get)
    if t == "not":
        return not evaluate(e[1], get)
    if t == "cond":
        return evaluate(e[2], get) if evaluate(e[1], get) else evaluate(e[3], get)
    raise ValueError(t)


def rename(e, old, new):
    if e[0] == "field":
        return ("field", new if e[1] == old else e[1])
    return tuple(rename(x, old, new) if isinstance(x, (tuple, list)) else x for x in e)


def fields_of(e):
    if e[0] == "field":
        return {e[1]}
    out = set()
    for x in e[1:]:
        if isinstance(x, (tuple, list)):
            out |= fields_of(x)
    return out


def edepth(e):
    return 1 + max([edepth(x) for x in e[1:] if isinstance(x, (tuple, list))] or [0])


VALUES = (0.0, 1.0, -1.0, 0.5, 2.0, -2.5, 3.0, 100.0, 0.1, float("nan"), float("inf"))

# ---------------------------------------------------------------------------------------------------------


def strategy(tier):
    thorough = tier == "thorough"

    @st.composite
    def algebra(draw):
        base = draw(st.sampled_from(("lambda", "def", "str")))
        ops = draw(st.lists(st.sampled_from(("named", "cached", "serializable", "cached", "serializable")), min_size=1, max_size=4))
        if ops.count("named") > 1 and draw(st.booleans()):
            ops = [o for i, o in enumerate(ops) if o != "named" or i == ops.index("named")]
        return {"mode": "algebra", "base": base, "ops": ops}

    @st.composite
    def history(draw):
        n = draw(st.integers(1, 12 if thorough else 8))
        pool = ("s1", "s1f", "s2.5", "a12", "a12", "a13", "a1", "d1", "d1", "d2", "da12", "da12", "da1", "dx1", "dx1", "dax1", "k1", "k1", "k2", "none", "v01", "v23", "v01", "v23", "rx", "ry", "dv01", "dv23", "snan", "an2", "ann", "dn", "l0", "l1", "l12", "l1", "l12", "t1", "t12")
        return {
            "mode": "history",
            "cached": draw(st.integers(0, 3)) > 0,
            "named": draw(st.booleans()),
            "calls": draw(st.lists(st.sampled_from(pool), min_size=n, max_size=n)),
        }

    @st.composite
    def expression(draw):
        vector = draw(st.integers(0, 2)) == 0
        single = not vector and draw(st.integers(0, 2)) == 0
        boolean = draw(st.integers(0, 3)) == 0
        fields = ("x",) if single else FIELDS
        e = draw(exprs(draw(st.integers(1, 4 if thorough else 3)), fields, vector, boolean))
        nrec = draw(st.integers(1, 6))
        recs = [{f: draw(st.sampled_from(VALUES)) for f in FIELDS} for _ in range(nrec)]
        reps = draw(st.lists(st.sampled_from(("dict", "attr", "scalar") if single else ("dict", "attr")), min_size=nrec, max_size=nrec))
        agg = draw(st.sampled_from(("Sum", "Bin", "Select", "Categorize")))
        # optionally give field z a name that also exists in math's namespace, among Python's builtins, or among the
        # attributes of numpy arrays / record arrays / DataFrames: record fields must win
        alias = draw(st.sampled_from((None, None, "e", "pi", "gamma", "tau", "size", "shape", "T", "real", "mean", "sum", "min", "max", "data", "ndim")))
        return {"mode": "expression", "expr": e, "records": recs, "reps": reps, "vector": vector, "single": single, "boolean": boolean, "agg": agg,
                "vrep": draw(st.sampled_from(("dict", "recarray", "df"))), "alias": alias}

    return st.one_of(algebra(), history(), expression(), expression())


# ---------------------------------------------------------------------------------------------------------


def _base(kind, const="1"):
    if kind == "lambda":
        return eval(f"lambda x: x + {const}", {})  # noqa: S307
    if kind == "def":
        ns = {}
        exec(f"def plus_one(x):\n    return x + {const}\n", ns)  # noqa: S102
        return ns["plus_one"]
    return f"x + {const}"


def check_algebra(case):
    from histogrammar.util import CachedFcn, UserFcn, cached, named, serializable  # noqa: PLC0415

    ops = case["ops"]
    apply = {"named": lambda f: named("nm", f), "cached": cached, "serializable": serializable}
    nnamed = ops.count("named")
    auto = case["base"] in ("def", "str")
    results = []
    for perm in sorted(set(itertools.permutations(ops))):
        # a sibling function of the same shape (same bytecode, another constant) goes through the same wrappers first:
        # wrapping one function must not depend on which other functions were wrapped before
        sib = _base(case["base"], "2.5")
        try:
            for op in perm:
                sib = {"named": lambda f: named("nm_sibling", f), "cached": cached, "serializable": serializable}[op](sib)
        except ValueError:
            sib = None
        f = _base(case["base"])
        err = None
        named_seen = 0
        must_raise = False
        may_raise = False
        for op in perm:
            if op == "named":
                named_seen += 1
                if named_seen >= 2:
                    must_raise = True
                elif auto and isinstance(f, UserFcn):
                    may_raise = True  # automatic name already attached (documented second-name rule)
            try:
                g = apply[op](f)
            except ValueError as e:
                err = e
                break
            if op in ("cached", "serializable") and isinstance(f, (CachedFcn if op == "cached" else UserFcn)):
                require(g is f, "not-idempotent", f"{op} applied to an already {op} function returned a new object ({perm})")
            f = g
        if must_raise:
            require(err is not None, "second-name-accepted", f"a second name was accepted without ValueError ({perm} on {case['base']})")
            continue
        if err is not None:
            require(may_raise, "unexpected-valueerror", f"{perm} on {case['base']} raised {err}")
            continue
        require(isinstance(f, UserFcn), "not-wrapped", f"{perm} did not produce a UserFcn")
        require(isinstance(f, CachedFcn) == ("cached" in ops), "cachedness-lost", f"{perm} on {case['base']}: CachedFcn is {isinstance(f, CachedFcn)} but cached applied is {'cached' in ops}")
        require(f(2) == 3, "wrapper-wrong-value", f"{perm}: wrapped function returned {f(2)!r} for 2")
        if sib is not None and callable(sib):
            require(sib(2) == 4.5, "wrapper-wrong-value", f"{perm}: a sibling function x + 2.5 wrapped the same way returned {sib(2)!r} for 2 after x + 1 was wrapped")
            require(f(2) == 3 and f(4) == 5, "wrapper-wrong-value", f"{perm}: wrapped x + 1 returned {f(2)!r} / {f(4)!r} for 2 / 4 after its sibling was called")
        results.append((perm, f))
    for (p1, f1), (p2, f2) in zip(results, results[1:]):
        require(f1 == f2 and f2 == f1, "orders-not-equal", f"{p1} and {p2} on {case['base']} give unequal wrappers")
        require(f1.name == f2.name, "orders-different-name", f"{p1} gives name {f1.name!r}, {p2} gives {f2.name!r}")
        require(hash(f1) == hash(f2), "orders-different-hash", f"{p1} and {p2}: equal wrappers with different hashes")
    for perm, f in results:
        if nnamed == 1:
            require(f.name == "nm", "name-lost", f"{perm} on {case['base']}: name is {f.name!r}")
    return {"nontrivial": len(ops) >= 2 and len(results) >= 1, "labels": ["mode:algebra", "base:" + case["base"], f"orders:{len(results)}"]}


_BASE = np.array([1.0, 2.0, 3.0, 4.0])
_REC = np.rec.fromarrays([np.array([1.0, 2.0]), np.array([5.0, 6.0])], names=["x", "y"])


def _arg(token):
    """Fresh argument objects for a pool token: (args, kwargs)."""
    # consecutive chunks / columns of one table: different views (same shape, dtype, strides) of one buffer
    if token == "v01":
        return (_BASE[0:2],), {}
    if token == "v23":
        return (_BASE[2:4],), {}
    if token == "rx":
        return (_REC["x"],), {}
    if token == "ry":
        return (_REC["y"],), {}
    if token == "dv01":
        return ({"x": _BASE[0:2]},), {}
    if token == "dv23":
        return ({"x": _BASE[2:4]},), {}
    # NaN marks missing data: a NaN is a different argument from the value that stood in its place last time
    if token == "snan":
        return (float("nan"),), {}
    if token == "an2":
        return (np.array([float("nan"), 2.0]),), {}
    if token == "ann":
        return (np.array([float("nan"), float("nan")]),), {}
    if token == "dn":
        return ({"x": float("nan"), "s": "a"},), {}
    # sequences of different lengths: a prefix (or the empty one) is a different argument
    if token == "l0":
        return ([],), {}
    if token == "l1":
        return ([25.0],), {}
    if token == "l12":
        return ([25.0, 40.0],), {}
    if token == "t1":
        return ((25.0,),), {}
    if token == "t12":
        return ((25.0, 40.0),), {}
    if token == "s1":
        return (1,), {}
    if token == "s1f":
        return (1.0,), {}
    if token == "s2.5":
        return (2.5,), {}
    if token == "a12":
        return (np.array([1.0, 2.0]),), {}
    if token == "a13":
        return (np.array([1.0, 3.0]),), {}
    if token == "a1":
        return (np.array([1.0]),), {}
    if token == "d1":
        return ({"x": 1.0, "s": "a"},), {}
    if token == "d2":
        return ({"x": 2.0, "s": "a"},), {}
    if token == "da12":
        return ({"x": np.array([1.0, 2.0])},), {}
    if token == "da1":
        return ({"x": np.array([1.0])},), {}
    if token == "dx1":  # a scalar record and a one-row batch with the same keys and "equal" values
        return ({"x": 1.0},), {}
    if token == "dax1":
        return ({"x": np.array([1.0])},), {}
    if token == "k1":
        return (1.0,), {"k": 2.0}
    if token == "k2":
        return (1.0,), {"k": 3.0}
    return (None,), {}


def _bare(a, k=0.0):
    if a is None:
        return "none"
    if isinstance(a, dict):
        return a["x"] * 2 + k
    if isinstance(a, (list, tuple)):  # a variable-length record (e.g. the jets of an event)
        return float(len(a)) + sum(a) + k
    return a * 2 + 1 + k


def _same(u, v):
    if type(u) is not type(v):
        return False
    if isinstance(u, np.ndarray):
        return u.shape == v.shape and u.dtype == v.dtype and np.array_equal(u, v, equal_nan=True)
    if isinstance(u, float) and u != u:
        return v != v
    return u == v


def check_history(case):
    from histogrammar.util import CachedFcn, cached, named, serializable  # noqa: PLC0415

    calls = [0]

    def counting(a, k=0.0):
        calls[0] += 1
        return _bare(a, k)

    assert isinstance(counting, types.FunctionType)
    f = cached(counting) if case["cached"] else serializable(counting)
    if case["named"]:
        # `counting` is a def: it is auto-named; wrap a lambda instead so that a name can be applied
        lam = lambda a, k=0.0: counting(a, k)  # noqa: E731
        f = named("nm", cached(lam) if case["cached"] else lam)
    require(isinstance(f, CachedFcn) == case["cached"], "cachedness-lost", "wrapper class does not reflect cached()")
    wrapper_calls = 0
    changed_after_repeat = False
    prev = None
    repeated = False
    for tok in case["calls"]:
        args, kwds = _arg(tok)
        want = _bare(*_arg(tok)[0], **_arg(tok)[1])
        got = f(*args, **kwds)
        wrapper_calls += 1
        require(_same(want, got), "wrong-return", f"call {tok} in history {case['calls']} returned {got!r}, the bare function returns {want!r}")
        require(calls[0] <= wrapper_calls, "extra-underlying-calls", "the underlying function was called more often than the wrapper")
        if not case["cached"]:
            require(calls[0] == wrapper_calls, "uncached-skipped-call", "an uncached wrapper did not call the function")
        if prev == tok:
            repeated = True
        elif repeated:
            changed_after_repeat = True
        prev = tok
    return {"nontrivial": bool(case["cached"] and changed_after_repeat), "labels": ["mode:history", "cached" if case["cached"] else "uncached"]}


class Rec:
    def __init__(self, d):
        self.__dict__.update(d)


def _outcome(fn):
    try:
        return ("ok", fn())
    except Exception as e:  # noqa: BLE001
        return ("raise", type(e).__name__)


def _same_value(u, v):
    if isinstance(u, float) and isinstance(v, float) and math.isnan(u) and math.isnan(v):
        return True
    return type(u) is type(v) and u == v


def check_expression(case):  # noqa: PLR0912, PLR0915
    hg = lib()
    from histogrammar.util import serializable  # noqa: PLC0415

    e = case["expr"]
    alias = case.get("alias")
    if alias:
        e = rename(e, "z", alias)
        case = dict(case, records=[{(alias if k == "z" else k): v for k, v in r.items()} for r in case["records"]])
    names = tuple(alias if alias and f == "z" else f for f in FIELDS)
    if case["agg"] == "Categorize":
        e = ("cond", e if case["boolean"] else ("cmp", ">", e, ("const", 0.0)), ("str", "p"), ("str", "n"))
    text = render(e)
    q = serializable(text)
    reps_used = set()
    for rec, rep in zip(case["records"], case["reps"]):
        if rep == "scalar":
            datum = rec["x"]
            get = lambda f, rec=rec: rec[f]  # noqa: E731
            if "x" not in fields_of(e):
                continue  # no variable to bind a bare scalar to
        elif rep == "attr":
            datum = Rec(rec)
            get = lambda f, rec=rec: rec[f]  # noqa: E731
        else:
            datum = dict(rec)
            get = lambda f, rec=rec: rec[f]  # noqa: E731
        want = _outcome(lambda: evaluate(e, get))  # noqa: B023
        got = _outcome(lambda: q(datum))  # noqa: B023
        reps_used.add(rep)
        if want[0] == "raise" or got[0] == "raise":
            require(want == got, "expression-exception-differs", f"{text!r} on {rep} record {rec}: evaluator {want}, string quantity {got}")
        else:
            require(_same_value(want[1], got[1]), "expression-value-differs", f"{text!r} on {rep} record {rec}: evaluator {want[1]!r}, string quantity {got[1]!r}")

    if case["vector"] and case["records"]:
        cols = {f: np.array([r[f] for r in case["records"]], dtype=np.float64) for f in names}
        if case["vrep"] == "dict":
            data = cols
        elif case["vrep"] == "recarray":
            data = np.rec.fromarrays([cols[f] for f in names], names=list(names))
        else:
            import pandas as pd  # noqa: PLC0415

            data = pd.DataFrame(cols)
        with np.errstate(all="ignore"):
            want = _outcome(lambda: evaluate(e, lambda f: cols[f]))
            got = _outcome(lambda: serializable(text)(data))
        reps_used.add("vector:" + case["vrep"])
        if want[0] == "raise" or got[0] == "raise":
            require(want == got, "expression-exception-differs", f"{text!r} vectorised ({case['vrep']}): evaluator {want}, string quantity {got}")
        else:
            w, g = np.asarray(want[1]), np.asarray(got[1])
            require(w.shape == g.shape and np.array_equal(w, g, equal_nan=(w.dtype.kind == "f")), "expression-value-differs", f"{text!r} vectorised ({case['vrep']}): evaluator {w!r}, string quantity {g!r}")

    # aggregators built from the string and from the equivalent function
    def fn(d, e=e):
        return evaluate(e, (lambda f: getattr(d, f)) if isinstance(d, Rec) else (lambda f: d[f]))

    def make(quantity):
        if case["agg"] == "Sum":
            return hg.Sum(quantity)
        if case["agg"] == "Bin":
            return hg.Bin(4, -2.0, 2.0, quantity, hg.Count())
        if case["agg"] == "Select":
            return hg.Select(quantity, hg.Count())
        return hg.Categorize(quantity, hg.Count())

    hs, hf = make(text), make(fn)
    data_recs = [Rec(r) if rep == "attr" else dict(r) for r, rep in zip(case["records"], case["reps"])]
    for d in data_recs:
        o1 = _outcome(lambda: hs.fill(d))  # noqa: B023
        o2 = _outcome(lambda: hf.fill(d))  # noqa: B023
        require(o1[0] == o2[0] and (o1[0] == "ok" or o1[1] == o2[1]), "aggregator-fill-differs", f"{case['agg']}({text!r}) vs function form on {vars(d) if isinstance(d, Rec) else d}: {o1} vs {o2}")
    dd = norm.diff(norm.norm(hs.toJson(), names=False), norm.norm(hf.toJson(), names=False), norm.BITEXACT)
    require(not dd, "aggregator-differs", lambda: f"{case['agg']}({text!r}) filled through the string vs the function: {norm.fmt(dd)}")
    labels = ["mode:expression", "agg:" + case["agg"]] + ["rep:" + r for r in sorted(reps_used)]
    if alias and alias in fields_of(e):
        labels.append("field-shadows-math-name")
    return {"nontrivial": edepth(e) >= 2 and len(reps_used) >= 2, "labels": labels}


def check(case):
    lib()
    if case["mode"] == "algebra":
        return check_algebra(case)
    if case["mode"] == "history":
        return check_history(case)
    return check_expression(case)
