"""C05 - bookkeeping invariants over operation histories (stateful) + edge-probe acceptance."""

import math
import pickle
import sys
from fractions import Fraction

import numpy as np
from hypothesis import strategies as st

from .. import gen, model, norm
from ..common import enc, lib
from ..core import Violation, require
from ..spec import build, kinds
from .c03 import _qbearing, count_before_shape, make_data

ID = "C05"
BUDGET = {"quick": (4, 300), "thorough": (16, 3000)}
TECHNIQUE = "stateful property-based testing (Hypothesis RuleBasedStateMachine) with node invariants after every step, plus a generated edge-probe oracle"
RULE = (
    "Three generated families.  (regions) stateless histories over one binning node (optionally under Select / Branch / Label) with a generated subset of its regions populated - inside, underflow, overflow, nanflow - followed by 1..4 derived operations (scaling, copy, +, JSON reload, pickle), invariants after every step.  (history) a rule-based state machine over a pool of aggregators built from 1-3 tree specs; "
    "rules: new, fill(row, w), fill.numpy(batch, weights), c = a + b, a += b, a*f / f*a, copy, JSON reload, pickle "
    "clone; a shadow value per object tracks the exact expected root entries; after every step every live object is "
    "walked: all entries >= 0; root entries == shadow; Bin: sum(values)+underflow+overflow+nanflow == entries; "
    "SparselyBin / CentrallyBin / IrregularlyBin: sum(bins)+nanflow == entries; Categorize: sum(bins) == entries; "
    "children of Label / UntypedLabel / Index / Branch and Fraction's denominator have the parent's entries; Stack "
    "levels non-increasing and level 0 + nanflow == entries; Bag: sum(weights) == entries (exact: all generated "
    "weights, selections and factors are dyadic); any exception from a rule on valid input is a violation.  (probe) a "
    "Bin / SparselyBin / CentrallyBin / IrregularlyBin configuration from the dyadic, non-dyadic and large-offset "
    "families and a probe value within 3 ulps of one of its edges (or NaN, +-inf): one fill and one single-row "
    "fill.numpy must not raise, must add the weight to exactly one slot, and that slot must be in the accepted set of "
    "DESIGN 4.2.  Non-trivial: a history with >= 1 merge or scaling and a fill after it; a probe within 3 ulps of an "
    "inner or upper edge of a non-dyadic or large-offset configuration; distinct by sha1 of the op list / probe."
)
ASSUMPTIONS = [
    "vectorised fills use non-negative weight arrays (documented domain); Count transforms are excluded (entries then is not a sum of weights)",
    "Stack thresholds are generated strictly increasing (the statement's precondition)",
    "toJson() exposes every node's entries",
]

# ---------------------------------------------------------------------------------------------------------
# node invariants on a typed tree (norm.norm output)


def _eq(a, b, exact):
    if exact:
        return a == b
    return abs(a - b) <= 1e-9 * max(abs(a), abs(b)) + 1e-12


def invariants(t, exact, path=()):
    """Yield violations (kind, message) of the bookkeeping invariants in typed tree t."""
    T = t["T"]
    e = t["entries"]
    where = "/".join(map(str, path)) or "<root>"
    if not (isinstance(e, (int, float)) and e >= 0):
        yield "negative-entries", f"{where}: {T}.entries = {e!r}"
        return
    kids = []
    if T == "Bin":
        parts = [v["entries"] for v in t["values"]] + [t["underflow"]["entries"], t["overflow"]["entries"], t["nanflow"]["entries"]]
        if not _eq(math.fsum(parts), e, exact):
            yield "bin-sum", f"{where}: Bin values+underflow+overflow+nanflow = {math.fsum(parts)!r} but entries = {e!r}"
        kids = [("values", i, v) for i, v in enumerate(t["values"])] + [(s, None, t[s]) for s in ("underflow", "overflow", "nanflow")]
    elif T in ("SparselyBin", "Categorize"):
        parts = [v["entries"] for v in t["bins"].values()] + ([t["nanflow"]["entries"]] if T == "SparselyBin" else [])
        if not _eq(math.fsum(parts), e, exact):
            yield "sparse-sum", f"{where}: {T} bins(+nanflow) = {math.fsum(parts)!r} but entries = {e!r}"
        kids = [("bins", k, v) for k, v in t["bins"].items()] + ([("nanflow", None, t["nanflow"])] if T == "SparselyBin" else [])
    elif T in ("CentrallyBin", "IrregularlyBin"):
        parts = [b["data"]["entries"] for b in t["bins"]] + [t["nanflow"]["entries"]]
        if not _eq(math.fsum(parts), e, exact):
            yield "bins-sum", f"{where}: {T} bins+nanflow = {math.fsum(parts)!r} but entries = {e!r}"
        kids = [("bins", i, b["data"]) for i, b in enumerate(t["bins"])] + [("nanflow", None, t["nanflow"])]
    elif T == "Stack":
        levels = [b["data"]["entries"] for b in t["bins"]]
        ths = [b["atleast"] for b in t["bins"]]
        if all(x < y for x, y in zip(ths, ths[1:])):
            for i, (x, y) in enumerate(zip(levels, levels[1:])):
                if y > x and not _eq(x, y, exact):
                    yield "stack-order", f"{where}: Stack level {i + 1} ({y!r}) exceeds level {i} ({x!r})"
        if not _eq(levels[0] + t["nanflow"]["entries"], e, exact):
            yield "stack-sum", f"{where}: Stack level 0 + nanflow = {levels[0] + t['nanflow']['entries']!r} but entries = {e!r}"
        kids = [("bins", i, b["data"]) for i, b in enumerate(t["bins"])] + [("nanflow", None, t["nanflow"])]
    elif T == "Fraction":
        if not _eq(t["denominator"]["entries"], e, exact):
            yield "fraction-denominator", f"{where}: Fraction denominator entries {t['denominator']['entries']!r} != {e!r}"
        kids = [("numerator", None, t["numerator"]), ("denominator", None, t["denominator"])]
    elif T == "Select":
        kids = [("data", None, t["data"])]
    elif T in ("Label", "UntypedLabel", "Index", "Branch"):
        items = t["data"].items() if isinstance(t["data"], dict) else enumerate(t["data"])
        for k, v in items:
            if not _eq(v["entries"], e, exact):
                yield "collection-child", f"{where}: {T} child {k} has entries {v['entries']!r}, parent {e!r}"
            kids.append(("data", k, v))
    elif T == "Bag":
        if not _eq(math.fsum(t["values"].values()), e, exact):
            yield "bag-sum", f"{where}: Bag weights sum to {math.fsum(t['values'].values())!r} but entries = {e!r}"
    for slot, k, v in kids:
        yield from invariants(v, exact, path + ((slot,) if k is None else (slot, k)))


# ---------------------------------------------------------------------------------------------------------
# interpreter over op lists (shared by the state machine and by replay)


class Pool:
    def __init__(self):
        self.objs = []  # dict(h, spec, shadow (Fraction), mutable, numpy_ok)
        self.merged_or_scaled = set()
        self.fill_after = False
        self.nfills = 0

    def mutable(self):
        return [i for i, o in enumerate(self.objs) if o["mutable"]]

    def partners(self, i):
        return [j for j, o in enumerate(self.objs) if o["sid"] == self.objs[i]["sid"]]

    def add_obj(self, h, src, shadow, mutable=None, derived=False):
        o = dict(src, h=h, shadow=shadow)
        if mutable is not None:
            o["mutable"] = mutable
        self.objs.append(o)
        if derived or src.get("derived"):
            o["derived"] = True
        return len(self.objs) - 1

    def apply(self, op):  # noqa: PLR0912, PLR0915
        hg = lib()
        k = op["op"]
        if k == "new":
            h = build(op["spec"])
            self.objs.append({"h": h, "spec": op["spec"], "sid": len(self.objs), "shadow": Fraction(0), "mutable": True, "nmul": 0,
                              "numpy_ok": _qbearing(op["spec"]), "scalar_ok": not count_before_shape(op["spec"])})
        elif k == "fill":
            o = self.objs[op["t"]]
            o["h"].fill(op["row"], op["w"])
            if op["w"] == op["w"] and op["w"] > 0:
                o["shadow"] += Fraction(op["w"])
                self.nfills += 1
                if o.get("derived"):
                    self.fill_after = True
        elif k == "fillnp":
            o = self.objs[op["t"]]
            data = make_data("dict", op["rows"])
            n = len(op["rows"])
            if isinstance(op["w"], list):
                o["h"].fill.numpy(data, np.array(op["w"], dtype=np.float64))
                o["shadow"] += sum((Fraction(w) for w in op["w"]), Fraction(0))
            elif op["w"] is None:
                o["h"].fill.numpy(data)
                o["shadow"] += n
            else:
                o["h"].fill.numpy(data, op["w"])
                o["shadow"] += n * Fraction(op["w"])
            if n and o.get("derived"):
                self.fill_after = True
            self.nfills += 1
        elif k == "add":
            a, b = self.objs[op["a"]], self.objs[op["b"]]
            i = self.add_obj(a["h"] + b["h"], a, a["shadow"] + b["shadow"], mutable=a["mutable"], derived=True)
            self.objs[i]["nmul"] = max(a["nmul"], b["nmul"])
        elif k == "iadd":
            a, b = self.objs[op["a"]], self.objs[op["b"]]
            if op["a"] != op["b"]:
                a["h"] += b["h"]
                a["shadow"] += b["shadow"]
                a["derived"] = True
                a["nmul"] = max(a["nmul"], b["nmul"])
        elif k == "mul":
            a = self.objs[op["a"]]
            f = op["f"]
            h = a["h"] * f if op["side"] == "l" else f * a["h"]
            pos = not (isinstance(f, float) and math.isnan(f)) and f > 0
            i = self.add_obj(h, a, a["shadow"] * Fraction(f) if pos else Fraction(0), derived=True)
            self.objs[i]["nmul"] = a["nmul"] + 1
        elif k == "copy":
            a = self.objs[op["a"]]
            self.add_obj(a["h"].copy(), a, a["shadow"])
        elif k == "reload":
            a = self.objs[op["a"]]
            self.add_obj(hg.Factory.fromJson(a["h"].toJson()), a, a["shadow"], mutable=False)
        elif k == "pickle":
            a = self.objs[op["a"]]
            self.add_obj(pickle.loads(pickle.dumps(a["h"])), a, a["shadow"])
        else:
            raise ValueError(k)

    def check(self, exact, after):
        for i, o in enumerate(self.objs):
            t = norm.norm(o["h"].toJson(), names=False)
            # all generated weights / selections / factors are dyadic (or small integers): every node's entries and all
            # partial sums are exactly representable as long as the object was scaled at most 6 times and holds less
            # than 2**20 of weight (47 significant bits at most); beyond that compare with rel 1e-9
            exact = o["nmul"] <= 6 and o["shadow"] < 2**20
            if not _eq(Fraction(t["entries"]), o["shadow"], exact):
                raise Violation("root-entries", f"after {after}: object {i} has entries {t['entries']!r}, the history gave it weight {float(o['shadow'])!r}", {"inv": "root-entries"})
            for kind, msg in invariants(t, exact):
                raise Violation(kind, f"after {after}: object {i} ({o['spec']['k']}): {msg}", {"inv": kind})


def run_history(case):
    pool = Pool()
    for n, op in enumerate(case["ops"]):
        pool.apply(op)
        pool.check(case.get("exact", True), f"step {n} ({op['op']})")
    specs = [o["spec"] for o in pool.objs[:3]]
    labels = ["mode:history"] + sorted({"kind:" + k for s in specs for k in kinds(s)}) + sorted({"op:" + op["op"] for op in case["ops"]})
    return {"nontrivial": pool.fill_after, "labels": labels}


# ---------------------------------------------------------------------------------------------------------
# edge probes


def probe_strategy():
    @st.composite
    def probes(draw):
        kind = draw(st.sampled_from(("Bin", "Bin", "SparselyBin", "CentrallyBin", "IrregularlyBin")))
        if kind == "Bin":
            cfg = draw(gen.bin_cfgs(20))
            spec = {"k": "Bin", "num": cfg["num"], "low": cfg["low"], "high": cfg["high"]}
            n, lo, hi = cfg["num"], cfg["low"], cfg["high"]
            i = draw(st.integers(0, n))
            edge = draw(st.sampled_from(((hi - lo) * i / n + lo, lo + i * ((hi - lo) / n))))
            fam, inner = cfg["fam"], i >= 1
        elif kind == "SparselyBin":
            cfg = draw(gen.sparse_cfgs())
            spec = {"k": "SparselyBin", "binWidth": cfg["binWidth"], "origin": cfg["origin"]}
            i = draw(st.sampled_from((-1000, -3, -2, -1, 0, 1, 2, 3, 7, 10, 1000, 12345)))
            edge = i * cfg["binWidth"] + cfg["origin"]
            fam, inner = cfg["fam"], True
        elif kind == "CentrallyBin":
            cs = sorted(draw(gen.center_lists(5)))
            spec = {"k": "CentrallyBin", "centers": cs}
            i = draw(st.integers(0, len(cs) - 2))
            edge = (cs[i] + cs[i + 1]) / 2.0
            fam, inner = ("dyadic" if all(float(c * 8).is_integer() for c in cs) else "nondyadic"), True
        else:
            es = draw(gen.edge_lists(4, 1))
            spec = {"k": "IrregularlyBin", "edges": es}
            edge = draw(st.sampled_from(es))
            fam, inner = "dyadic", True
        d = draw(st.sampled_from((0, 0, -1, 1, -2, 2, -3, 3)))
        x = draw(st.sampled_from((gen.ulps(edge, d),) * 12 + (float("nan"), float("inf"), -float("inf"))))
        value = draw(st.sampled_from(({"k": "Count"}, {"k": "Count"}, {"k": "Sum", "q": {"t": "num", "col": "x", "fl": "lambda"}})))
        return {"mode": "probe", "spec": spec, "value": value, "x": x, "w": draw(st.sampled_from((1.0, 0.5, 2.0))), "fam": fam, "inner": inner}

    return probes()


def _slots(h, kind):
    """slot name -> entries for a binning aggregator."""
    out = {}
    if kind == "Bin":
        out = {("bin", i): v.entries for i, v in enumerate(h.values)}
        out.update({("underflow",): h.underflow.entries, ("overflow",): h.overflow.entries, ("nanflow",): h.nanflow.entries})
    elif kind == "SparselyBin":
        out = {("bin", int(i)): v.entries for i, v in h.bins.items()}
        out[("nanflow",)] = h.nanflow.entries
    else:
        out = {("bin", i): v.entries for i, (_, v) in enumerate(h.bins)}
        out[("nanflow",)] = h.nanflow.entries
    return out


def accepted_slots(spec, x):
    k = spec["k"]
    if math.isnan(x):
        return {("nanflow",)}
    if k == "Bin":
        if x < spec["low"]:
            return {("underflow",)}
        if x >= spec["high"]:
            return {("overflow",)}
        _, acc, _ = model.bin_accepted(spec["num"], spec["low"], spec["high"], x)
        return {("bin", i) for i in acc}
    if k == "SparselyBin":
        _, acc, _ = model.sparse_accepted(spec["binWidth"], spec["origin"], x)
        return {("bin", i) for i in acc}
    if k == "CentrallyBin":
        _, acc, _ = model.central_accepted(sorted(spec["centers"]), x)
        return {("bin", i) for i in acc}
    ths = [-math.inf] + list(spec["edges"])
    return {("bin", max(i for i, t in enumerate(ths) if x >= t))}


def run_probe(case):
    spec = dict(case["spec"])
    kind = spec["k"]
    q = {"t": "num", "col": "x", "fl": "lambda"}
    full = dict(spec, q=q, value=case["value"], nanflow={"k": "Count"})
    if kind == "Bin":
        full.update(underflow={"k": "Count"}, overflow={"k": "Count"})
    x, w = case["x"], case["w"]
    want = accepted_slots(spec, x)
    sig = {"primitive": kind}
    for path in ("row", "numpy"):
        h = build(full)
        row = {"x": x, "y": 0.0, "z": 0.0, "w": 1.0, "s": "a", "t": "a", "b": False}
        if path == "row":
            h.fill(row, w)
        else:
            h.fill.numpy(make_data("dict", [row]), np.array([w]))
        require(h.entries == w, "probe-entries", f"{kind} {spec}: {path} fill of {x!r} with weight {w} gives entries {h.entries!r}", sig)
        moved = {s: e for s, e in _slots(h, kind).items() if e != 0}
        require(len(moved) == 1 and next(iter(moved.values())) == w, "probe-not-one-slot", f"{kind} {spec}: {path} fill of {x!r} (weight {w}) moved slots {moved}", sig)
        slot = next(iter(moved))
        require(slot in want, "probe-wrong-slot", f"{kind} {spec}: {path} fill of {x!r} landed in {slot}, accepted {sorted(want)}", sig)
    near_edge = not (math.isnan(x) or math.isinf(x))
    return {"nontrivial": near_edge and case["inner"] and case["fam"] != "dyadic", "labels": ["mode:probe", "probe:" + kind, "fam:" + case["fam"]]}


def region_strategy():
    """Stateless histories over one binning node with a chosen SUBSET of its regions populated (inside / underflow /
    overflow / nanflow), followed by every derived operation: code that special-cases empty slots shows here."""
    row0 = {"x": 0.0, "y": 0.0, "z": 0.0, "w": 1.0, "s": "a", "t": "a", "b": False}

    @st.composite
    def regions(draw):
        kind = draw(st.sampled_from(("Bin", "Bin", "SparselyBin", "CentrallyBin", "IrregularlyBin", "Stack")))
        leaf = draw(st.sampled_from(({"k": "Count"}, {"k": "Count"}, {"k": "Sum", "q": {"t": "num", "col": "y", "fl": "lambda"}})))
        flow = draw(st.sampled_from(({"k": "Count"}, {"k": "Count"}, {"k": "Sum", "q": {"t": "num", "col": "y", "fl": "lambda"}})))
        q = {"t": "num", "col": "x", "fl": "lambda"}
        if kind == "Bin":
            cfg = draw(gen.bin_cfgs(6))
            spec = {"k": "Bin", "num": cfg["num"], "low": cfg["low"], "high": cfg["high"], "q": q, "value": leaf, "underflow": dict(flow), "overflow": dict(flow), "nanflow": dict(flow)}
            vals = {"inside": (cfg["low"] + cfg["high"]) / 2.0, "inside2": cfg["low"], "under": cfg["low"] - 1.0, "over": cfg["high"] + 1.0, "nan": float("nan")}
        elif kind == "SparselyBin":
            cfg = draw(gen.sparse_cfgs())
            spec = {"k": "SparselyBin", "binWidth": cfg["binWidth"], "origin": cfg["origin"], "q": q, "value": leaf, "nanflow": dict(flow)}
            vals = {"inside": cfg["origin"] + 0.5 * cfg["binWidth"], "inside2": cfg["origin"] - 2.5 * cfg["binWidth"], "nan": float("nan")}
        elif kind == "CentrallyBin":
            cs = sorted(draw(gen.center_lists(4)))
            spec = {"k": "CentrallyBin", "centers": cs, "q": q, "value": leaf, "nanflow": dict(flow)}
            vals = {"inside": cs[0], "inside2": cs[-1], "nan": float("nan")}
        else:
            es = draw(gen.edge_lists(3, 1))
            spec = {"k": kind, ("edges" if kind == "IrregularlyBin" else "thresholds"): es, "q": q, "value": leaf, "nanflow": dict(flow)}
            vals = {"inside": es[0] - 1.0, "inside2": es[-1] + 1.0, "nan": float("nan")}
        if draw(st.integers(0, 3)) == 0:
            spec = {"k": draw(st.sampled_from(("Select", "Branch", "Label"))), "inner": spec}
            if spec["k"] == "Select":
                spec = {"k": "Select", "q": {"t": "num", "col": "w", "fl": "lambda"}, "cut": spec["inner"]}
            elif spec["k"] == "Branch":
                spec = {"k": "Branch", "values": [{"k": "Count"}, spec["inner"]]}
            else:
                spec = {"k": "Label", "pairs": {"a": spec["inner"]}}
        populated = draw(st.lists(st.sampled_from(sorted(vals)), unique=True, max_size=len(vals)))
        ops = [{"op": "new", "spec": spec}]
        for r in populated:
            for _ in range(draw(st.integers(1, 2))):
                ops.append({"op": "fill", "t": 0, "row": dict(row0, x=vals[r], y=draw(st.sampled_from((1.0, -2.0, 0.5)))), "w": draw(st.sampled_from((1.0, 2.0, 0.5)))})
        derive = st.sampled_from(("mul", "mul", "copy", "add", "iadd", "reload", "pickle"))
        for _ in range(draw(st.integers(1, 4))):
            d = draw(derive)
            n = 1 + sum(1 for o in ops if o["op"] in ("mul", "copy", "add", "reload", "pickle", "new2"))
            a = draw(st.integers(0, n - 1))
            if d == "mul":
                ops.append({"op": "mul", "a": a, "f": draw(st.sampled_from((2.0, 0.5, 1.0, 1, 3.0))), "side": draw(st.sampled_from("lr"))})
            elif d in ("copy", "reload", "pickle"):
                ops.append({"op": d, "a": a})
            else:
                ops.append({"op": "add", "a": a, "b": draw(st.integers(0, n - 1))})
        return {"mode": "history", "ops": ops, "exact": True, "family": "regions"}

    return regions()


def strategy(tier):
    return st.one_of(probe_strategy(), probe_strategy(), region_strategy())


def check(case):
    lib()
    if case.get("mode") == "probe":
        return run_probe(case)
    return run_history(case)


# ---------------------------------------------------------------------------------------------------------
# the state machine


def make_machine(tier, col):
    from hypothesis.stateful import RuleBasedStateMachine, initialize, precondition, rule  # noqa: PLC0415

    thorough = tier == "thorough"
    opts = gen.TreeOpts(max_depth=3, bag_ranges=("N", "S"), count_transforms=False, max_bins=6)
    W = (1.0, 1.0, 0.5, 2.0, 0.125, 3.0, 0.0, -1.0, float("nan"))
    FACTORS = (2.0, 0.5, 1.0, 4.0, 0.0, -1.0, float("nan"), 3.0)

    class Machine(RuleBasedStateMachine):
        def __init__(self):
            super().__init__()
            self.pool = Pool()
            self.ops = []
            self.crit = {}

        def do(self, op):
            from ..common import hygiene  # noqa: PLC0415
            from ..run import checked  # noqa: PLC0415

            hygiene()
            self.ops.append(op)
            case = {"mode": "history", "ops": self.ops, "exact": True}

            class _M:  # adapter so that run.checked buckets library exceptions for us
                ID = "C05"

                @staticmethod
                def check(_case, pool=self.pool, op=op, n=len(self.ops) - 1):
                    pool.apply(op)
                    pool.check(True, f"step {n} ({op['op']})")

            try:
                checked(_M, case)
            except Violation as v:
                from .. import findings  # noqa: PLC0415

                if findings.match("C05", v.kind, v.sig) is not None:
                    col.known["c05"] = col.known.get("c05", 0) + 1
                    return
                rec = {"case": enc(case), "kind": v.kind, "detail": v.detail, "sig": enc(v.sig)}
                if col.first_failure is None:
                    col.first_failure = rec
                col.last_failure = rec
                col.failing = True
                raise

        @initialize(data=st.data())
        def start(self, data):
            self.new(data)

        def new(self, data):
            spec, _ = data.draw(gen.specs_and_focus(opts, 5))
            self.do({"op": "new", "spec": spec})
            self.crit[len(self.pool.objs) - 1] = gen.critical_values(spec)

        @precondition(lambda self: len({o["sid"] for o in self.pool.objs}) < 3 and len(self.pool.objs) < 8)
        @rule(data=st.data())
        def new_rule(self, data):
            self.new(data)

        def pick(self, data, among=None):
            among = list(range(len(self.pool.objs))) if among is None else among
            return among[data.draw(st.integers(0, len(among) - 1))]

        def critof(self, i):
            return self.crit[self.pool.objs[i]["sid"]]

        @precondition(lambda self: self.pool.mutable())
        @rule(data=st.data())
        def fill(self, data):
            t = self.pick(data, self.pool.mutable())
            self.do({"op": "fill", "t": t, "row": data.draw(gen.rows(self.critof(t), True, focus=data.draw(st.booleans()))), "w": data.draw(st.sampled_from(W))})

        @precondition(lambda self: any(self.pool.objs[i]["numpy_ok"] for i in self.pool.mutable()))
        @rule(data=st.data())
        def fillnp(self, data):
            t = self.pick(data, [i for i in self.pool.mutable() if self.pool.objs[i]["numpy_ok"]])
            n = data.draw(st.integers(0, 6))
            rows = [data.draw(gen.rows(self.critof(t), True, none_cats=False, focus=True)) for _ in range(n)]
            mode = data.draw(st.sampled_from(("array", "array", "scalar", "none")))
            if mode != "array" and not self.pool.objs[t]["scalar_ok"]:
                mode = "array"  # known finding c03-count-scalar-weight, excluded by construction
                col.excluded["count-before-shape->array-weights"] = col.excluded.get("count-before-shape->array-weights", 0) + 1
            if mode == "array":
                w = [data.draw(st.sampled_from((1.0, 1.0, 0.0, 0.5, 2.0, 0.125))) for _ in range(n)]
            elif mode == "scalar":
                w = data.draw(st.sampled_from((1.0, 2.0, 0.5, 0.0)))
            else:
                w = None
            self.do({"op": "fillnp", "t": t, "rows": rows, "w": w})

        @precondition(lambda self: len(self.pool.objs) < 10)
        @rule(data=st.data())
        def add(self, data):
            a = self.pick(data)
            b = self.pick(data, self.pool.partners(a))
            self.do({"op": "add", "a": a, "b": b})

        @rule(data=st.data())
        def iadd(self, data):
            a = self.pick(data)
            b = self.pick(data, self.pool.partners(a))
            self.do({"op": "iadd", "a": a, "b": b})

        @precondition(lambda self: len(self.pool.objs) < 10)
        @rule(data=st.data())
        def mul(self, data):
            self.do({"op": "mul", "a": self.pick(data), "f": data.draw(st.sampled_from(FACTORS)), "side": data.draw(st.sampled_from("lr"))})

        @precondition(lambda self: len(self.pool.objs) < 10)
        @rule(data=st.data(), how=st.sampled_from(("copy", "reload", "pickle")))
        def clone(self, data, how):
            self.do({"op": how, "a": self.pick(data)})

        def teardown(self):
            if not col.failing:
                case = {"mode": "history", "ops": self.ops, "exact": True}
                specs = [o["spec"] for o in self.pool.objs[:3]]
                labels = ["mode:history"] + sorted({"kind:" + k for s in specs for k in kinds(s)}) + sorted({"op:" + op["op"] for op in self.ops})
                labels.append(f"steps:{min(len(self.ops) // 10 * 10, 50)}+")
                col.record(case, {"nontrivial": self.pool.fill_after, "labels": labels})
            else:
                col.shrink_evaluations += 1

    Machine.steps = 60 if thorough else 30
    return Machine


def worker_run(tier, seed, examples, col):
    from ..run import default_worker_run  # noqa: PLC0415
    from ..stateful import run_machine  # noqa: PLC0415

    mod = sys.modules[__name__]
    default_worker_run(mod, tier, seed, examples * 5, col)
    run_machine(mod, make_machine(tier, col), seed, examples, col)
