"""C03 - vectorised (numpy) fill is observationally equal to per-row fill (differential, library vs library)."""

import numpy as np
from hypothesis import strategies as st

from .. import gen, model, norm
from ..common import lib
from ..core import Violation, require
from ..spec import build, kinds, walk_spec

ID = "C03"
BUDGET = {"quick": (4, 500), "thorough": (16, 5000)}
TECHNIQUE = "property-based differential testing (Hypothesis): fill.numpy vs per-row fill of a twin tree"
RULE = (
    "Generated: a tree spec with >= 1 quantity-bearing node (no Bag range N2; Count transforms only with dict / record-array input), a column batch of "
    "0..16 rows over the tree's critical-value alphabets (edges +-ulps, NaN, +-inf; in a sixth of the cases with a "
    "weight-valued Select / Fraction also +-inf cut weights), an input representation (dict of "
    "arrays / numpy record array / pandas DataFrame with string-expression quantities / a bare 1-D ndarray with "
    "quantities over the datum itself), weights (omitted / positive "
    "scalar / zero scalar / non-negative array incl. zeros) and cut points splitting the batch into 1..4 successive "
    "fill.numpy calls (empty batches allowed; the calls get freshly built arrays or consecutive slices of one table; the numeric columns "
    "are float64, float32 or int64 arrays, strided views or read-only arrays).  Oracle: a twin tree filled row by row with the same weights (in a sixth of the cases the rows are taken from the "
    "arrays themselves, so their values are numpy scalars) has the "
    "same document up to zero-weight sparse bins/categories (counts bit-exact when every partial sum is representable, "
    "rel 1e-9 otherwise, tolerance on means/variances); an exception on one side only is a violation; all input "
    "arrays are byte-identical (NaN-aware) to copies taken before the call.  Non-trivial: the batch holds a positively "
    "weighted row on an edge or with a non-finite quantity, or there are >= 2 calls; distinct by sha1 of the case."
)
ASSUMPTIONS = [
    "at least one of the two fill paths is right (C02 establishes the row path against the reference model)",
    "negative weights and SparselyBin quantities with |q-origin|/binWidth >= 2^53 are outside the asserted domain",
    "string category arrays contain no None (numpy cannot sort it); DataFrames carry numeric/bool columns only",
]

REPRS = ("dict", "dict", "recarray", "df", "bare")


def _to_x(spec):
    """The same tree with every quantity reading column x (for the bare-ndarray representation)."""
    if isinstance(spec, dict):
        out = {k: _to_x(v) for k, v in spec.items()}
        if "col" in out and out.get("t") in ("num", "gt"):
            if out["t"] == "num" and out["col"] == "w":  # a Select's weight column: select on the datum instead
                out = {"t": "gt", "col": "x", "thr": 0.0, "fl": out.get("fl", "lambda")}
            out["col"] = "x"
        return out
    if isinstance(spec, list):
        return [_to_x(v) for v in spec]
    return spec


def _plain_q(spec):
    if isinstance(spec, dict):
        return {k: _plain_q(v) for k, v in spec.items() if not (spec.get("t") == "num" and k in ("a", "b"))}
    if isinstance(spec, list):
        return [_plain_q(v) for v in spec]
    return spec


def bare_qhook(path, spec, q):
    """Quantities over the datum itself: a float in the row-wise fill, the 1-D array in fill.numpy(array)."""
    t = q["t"]
    if t == "num":
        a, b = q.get("a", 1.0), q.get("b", 0.0)
        if a == 1.0 and b == 0.0:
            return eval("lambda d: d", {})  # noqa: S307
        return eval(f"lambda d, a={a!r}, b={b!r}: a * d + b", {})  # noqa: S307
    if t == "gt":
        return eval(f"lambda d, t={q['thr']!r}: d > t", {})  # noqa: S307
    raise ValueError(t)


def _qbearing(spec):
    return any("q" in s for _, s in walk_spec(spec))


def count_before_shape(spec):
    """True iff fill.numpy would visit a bare Count before any quantity-bearing node fixed the batch length
    (known finding c03-count-scalar-weight: such a Count receives w instead of n*w under scalar weights)."""
    state = {"shape": False, "bad": False}

    def visit(s):
        k = s["k"]
        if k == "Count":
            if not state["shape"]:
                state["bad"] = True
            return
        if "q" in s:
            state["shape"] = True
        if k in ("Label", "UntypedLabel"):
            for c in s["pairs"].values():
                visit(c)
        elif k in ("Index", "Branch"):
            for c in s["values"]:
                visit(c)
        # other children are only reached after this node's own quantity fixed the shape

    visit(spec)
    return state["bad"]


def strategy(tier):
    thorough = tier == "thorough"

    @st.composite
    def cases(draw):
        rep = draw(st.sampled_from(REPRS))
        if rep == "bare":
            opts = gen.TreeOpts(
                max_depth=4 if thorough else 3,
                kinds=[k for k in gen.ALL_KINDS if k != "Categorize"],
                bag_ranges=("N",),
                flavours=("lambda",),
                count_transforms=True,
            )
        elif rep == "df":
            opts = gen.TreeOpts(
                max_depth=4 if thorough else 3,
                bag_ranges=("N",),
                flavours=("str", "named_str", "cached_str"),
                cat_cols=("b",),
            )
        else:
            opts = gen.TreeOpts(max_depth=4 if thorough else 3, bag_ranges=("N", "S"), cat_cols=("s", "s", "b"), count_transforms=True)
        spec, focus = draw(gen.specs_and_focus(opts))
        if rep == "bare":
            spec = _to_x(spec)
        if not _qbearing(spec):
            spec = {"k": "Branch", "values": [{"k": "Sum", "q": {"t": "num", "col": "x" if rep == "bare" else "z", "fl": opts.flavours[0]}}, spec]}
        crit = gen.critical_values(spec)
        exactish = draw(st.integers(0, 9)) < 7
        n = draw(st.integers(0, 16))
        batch = [draw(gen.rows(crit, exactish, none_cats=False, focus=focus)) for _ in range(n)]
        cuts = draw(gen.cuts(n, 4))
        if n and draw(st.integers(0, 5)) == 0:
            # one whole call's worth of rows with one special value in one column ("a batch that is all NaN")
            pieces = [p_ for p_ in gen.split(list(range(n)), cuts) if p_]
            piece = pieces[draw(st.integers(0, len(pieces) - 1))]
            col, val = draw(st.sampled_from(("x", "y", "z"))), draw(st.sampled_from((float("nan"), float("nan"), float("inf"), float("-inf"), 0.0)))
            for i_ in piece:
                batch[i_][col] = val
        if n and rep != "bare" and any(s_["k"] in ("Select", "Fraction") and s_["q"].get("col") == "w" for _, s_ in walk_spec(spec)) and draw(st.integers(0, 5)) == 0:
            # a selection quantity is a quantity too: +-inf cut weights (the reference model does not cover them)
            for r in batch:
                if draw(st.integers(0, 2)) == 0:
                    r["w"] = draw(st.sampled_from((float("inf"), float("inf"), float("-inf"))))
        # the arrays may be float32 / int64 columns (the rows then hold exactly those numbers as Python floats),
        # strided views or read-only arrays
        flavour = draw(st.sampled_from(("f64", "f64", "f32", "f32", "i64", "strided", "readonly")))
        if flavour == "i64" and any(not (r[c] == r[c] and abs(r[c]) < 2.0**52) for r in batch for c in ("x", "y", "z")):
            flavour = "f64"
        if flavour == "f32":
            # arithmetic inside a user's quantity on a float32 array is float32 arithmetic (the user's business):
            # only plain column quantities, so that both paths see the same numbers
            spec = _plain_q(spec)
        for r in batch:
            for c in ("x", "y", "z"):
                if flavour == "f32":
                    r[c] = float(np.float32(r[c]))
                elif flavour == "i64":
                    r[c] = float(round(r[c]))
        wmode = draw(st.sampled_from(("omitted", "scalar", "zero", "array", "array")))
        excluded = 0
        if wmode != "array" and count_before_shape(spec):
            wmode, excluded = "array", 1
        if wmode == "scalar":
            w = draw(st.sampled_from((1.0, 2.0, 0.5, 3.0) if exactish else (1.0, 0.1, 2.5, 1.0 / 3.0)))
        elif wmode == "zero":
            w = 0.0
        elif wmode == "array":
            pool = (1.0, 1.0, 0.0, 0.5, 2.0, 0.125, 3.0) if exactish else (1.0, 0.0, 0.1, 0.7, 2.5)
            w = [draw(st.sampled_from(pool)) for _ in range(n)]
            if draw(st.integers(0, 4)) == 0:
                w = [1.0] * n
            elif draw(st.integers(0, 5)) == 0:
                # weights that are not all 1 but add up to the number of rows (0.5 and 1.5 in turn)
                w = [0.5 if i_ % 2 == 0 else 1.5 for i_ in range(n)]
        else:
            w = None
        return {"spec": spec, "rep": rep, "batch": batch, "wmode": wmode, "w": w, "cuts": cuts, "excluded": excluded, "views": draw(st.booleans()),
                "np_rows": draw(st.integers(0, 5)) == 0, "flavour": flavour}

    return cases()


def _column(values, flavour):
    """One numeric column in the requested array flavour (same numbers as the rows hold)."""
    if flavour == "f32":
        return np.array(values, dtype=np.float32)
    if flavour == "i64":
        return np.array([int(v) for v in values], dtype=np.int64)
    if flavour == "strided":
        big = np.zeros(2 * len(values), dtype=np.float64)
        big[::2] = values
        return big[::2]
    a = np.array(values, dtype=np.float64)
    if flavour == "readonly":
        a.setflags(write=False)
    return a


def make_data(rep, rows, flavour="f64"):
    if rep == "bare":
        return _column([r["x"] for r in rows], flavour)
    cols = {}
    for c in ("x", "y", "z"):
        cols[c] = _column([r[c] for r in rows], flavour)
    cols["w"] = np.array([r["w"] for r in rows], dtype=np.float64)
    cols["b"] = np.array([r["b"] for r in rows], dtype=bool)
    if rep != "df":
        cols["s"] = np.array([r["s"] for r in rows], dtype="U12")
        cols["t"] = np.array([r["t"] for r in rows], dtype="U12")
    if rep == "dict":
        return cols
    if rep == "recarray":
        names = list(cols)
        return np.rec.fromarrays([cols[c] for c in names], names=names)
    import pandas as pd  # noqa: PLC0415

    return pd.DataFrame(cols)


def _snapshot(rep, data):
    if rep == "bare":
        return data.copy()
    if rep == "dict":
        return {k: v.copy() for k, v in data.items()}
    return data.copy()


def _unchanged(rep, before, after):
    if rep == "bare":
        return before.dtype == after.dtype and np.array_equal(before, after, equal_nan=True) and np.array_equal(np.signbit(before), np.signbit(after))
    if rep == "df":
        return bool(before.equals(after)) and list(before.dtypes) == list(after.dtypes)
    names = before.keys() if rep == "dict" else before.dtype.names
    for k in names:
        a, b = before[k], after[k]
        if a.dtype != b.dtype or a.shape != b.shape:
            return False
        if a.dtype.kind == "f":
            if not np.array_equal(a, b, equal_nan=True) or not np.array_equal(np.signbit(a), np.signbit(b)):
                return False
        elif not np.array_equal(a, b):
            return False
    return True


def _sum_nan_findings(spec, diffs, row_doc, np_doc):
    """Split diffs into (known Sum-NaN deviations, others).

    Known finding c03-sum-nan-skip: Sum.fill.numpy skips rows whose quantity is NaN while Sum.fill turns the sum
    into NaN.  Recognised only at a 'sum' field where the row-filled value is NaN and the vectorised one is not.
    """
    known, other = [], []
    for p, a, b in diffs:
        if p and p[-1] == "sum" and isinstance(a, float) and a != a and not (isinstance(b, float) and b != b):
            known.append((p, a, b))
        else:
            other.append((p, a, b))
    return known, other


def check(case):
    lib()
    spec, rows = case["spec"], case["batch"]
    n = len(rows)
    wmode, w = case["wmode"], case["w"]
    if wmode == "omitted":
        roww = [1.0] * n
    elif wmode in ("scalar", "zero"):
        roww = [w] * n
    else:
        roww = list(w)
    infsel = any(isinstance(r.get("w"), float) and r["w"] in (float("inf"), float("-inf")) for r in rows)
    if infsel:
        # infinite cut weights are outside the rational model: compare the two paths with the inexact policy
        ref = None
        pol = norm.Policy(exact=False, scale=1.0 + max([abs(v) for r in rows for v in (r["x"], r["y"], r["z"]) if v == v and abs(v) != float("inf")] + [1.0]))
    else:
        ref = model.evaluate(spec, list(zip(rows, roww)))
        pol = norm.Policy(exact=ref.exact, scale=1.0 + ref.notes["maxabs"])

    bare = case["rep"] == "bare"
    hrow = build(spec, bare_qhook if bare else None)
    hnp = build(spec, bare_qhook if bare else None)
    chunks = gen.split(list(range(n)), case["cuts"])
    flavour = case.get("flavour", "f64")
    whole = make_data(case["rep"], rows, flavour)
    for ch in chunks:
        sub = [rows[i] for i in ch]
        if case.get("views", True) and ch:
            # successive calls get consecutive slices of ONE table (views of the same buffers), as chunked filling does
            a_, b_ = ch[0], ch[-1] + 1
            if case["rep"] == "dict":
                data = {k: v[a_:b_] for k, v in whole.items()}
            elif case["rep"] == "df":
                data = whole.iloc[a_:b_]
            else:
                data = whole[a_:b_]
        else:
            data = make_data(case["rep"], sub, flavour)
        before = _snapshot(case["rep"], data)
        if wmode == "array":
            warr = np.array([roww[i] for i in ch], dtype=np.float64)
            wbefore = warr.copy()
            hnp.fill.numpy(data, warr)
            require(np.array_equal(warr, wbefore), "weights-modified", "fill.numpy modified the caller's weight array")
        elif wmode == "omitted":
            hnp.fill.numpy(data)
        else:
            hnp.fill.numpy(data, w)
        require(_unchanged(case["rep"], before, data), "input-modified", "fill.numpy modified the caller's data")
        for n_, i in enumerate(ch):
            if case.get("np_rows") and case["rep"] in ("dict", "recarray") and flavour in ("f64", "strided", "readonly"):
                # "once per row" of the very arrays: the row's values are numpy scalars (np.float64, np.bool_, np.str_)
                src = data
                names = src.keys() if case["rep"] == "dict" else src.dtype.names
                row = {c: src[c][n_] for c in names}
                try:
                    hrow.fill(row, roww[i])
                except TypeError as e:
                    if "numpy.bool" in str(type(row["b"])) and ("must be boolean or number" in str(e) or "must be a string or bool" in str(e)):
                        raise Violation(
                            "row-numpy-bool",
                            f"fill of a row taken from the arrays raised {e} (a numpy.bool_ is not accepted where a Python bool is), fill.numpy of the arrays is fine",
                            {"value": "numpy.bool_", "path": "row"},
                        ) from None
                    raise
            else:
                hrow.fill(rows[i]["x"] if bare else rows[i], roww[i])

    drow = norm.norm(hrow.toJson(), drop_zero=True)
    dnp = norm.norm(hnp.toJson(), drop_zero=True)
    drow, dnp = norm.strip_empty_types(drow), norm.strip_empty_types(dnp)
    diffs = norm.diff(drow, dnp, pol, limit=40)
    known, other = _sum_nan_findings(spec, diffs, drow, dnp)
    require(not other, "numpy-vs-row", lambda: f"row fill vs fill.numpy ({case['rep']}, weights {wmode}, {len(chunks)} calls): {norm.fmt(other[:6])}")
    if known:
        raise Violation("sum-nan-skip", f"Sum.fill.numpy skips NaN quantities, Sum.fill does not: {norm.fmt(known[:3])}", {"node": "Sum", "field": "sum"})

    labels = ["kind:" + k for k in kinds(spec)]
    labels += ["rep:" + case["rep"], "weights:" + wmode, f"calls:{len(chunks)}", "exact" if ref is not None and ref.exact else "inexact"]
    if ref is None:
        labels.append("infinite-cut-weight")
        nontrivial = any(w_ > 0 for w_ in roww)
    else:
        for key in ("edge_hits", "nonfinite"):
            if ref.notes[key]:
                labels.append(key)
        nontrivial = bool(ref.notes["edge_hits"] or ref.notes["nonfinite"] or (len(chunks) >= 2 and n >= 2))
    return {"nontrivial": nontrivial, "labels": labels, "excluded": {"count-before-shape->array-weights": case.get("excluded", 0)}}
