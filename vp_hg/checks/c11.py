"""C11 - pickling preserves content, equality and fillability (round trip + continuation)."""

import pickle

import numpy as np
from hypothesis import strategies as st

from .. import gen, norm, states, walk
from ..common import lib
from ..core import require
from ..spec import kinds, walk_spec
from .c03 import _qbearing, count_before_shape, make_data

ID = "C11"
BUDGET = {"quick": (4, 400), "thorough": (16, 5000)}
TECHNIQUE = "property-based round-trip testing (Hypothesis): pickle clone vs original under identical continuations"
RULE = (
    "Generated: a tree spec whose quantities are rendered in every flavour (self-contained lambda, def, string "
    "expression, named, cached, named+cached; Count transforms as lambda and string), a state from {fresh, filled, "
    "merged, scaled, copied, JSON-reloaded}, a pickle protocol from {2, default, highest}, and a continuation of row "
    "fills, one vectorised fill and a merge.  Oracle: clone == h (library ==) in both orders; identical documents; the "
    "original's document is unchanged by dumps; the clone has working fill / fill.numpy / plot wrappers; after applying "
    "the continuation to both the documents are still identical bit for bit; clone + h works; a second-generation clone "
    "is equal again.  Non-trivial: non-empty state and a continuation with >= 1 positive fill through a "
    "string-expression, named or cached quantity; distinct by sha1 of the case."
)
ASSUMPTIONS = [
    "quantity functions are self-contained (no closure cells, no module globals), the documented limit of UserFcn.__reduce__",
    "Python's pickle and marshal modules are correct",
]


def strategy(tier):
    thorough = tier == "thorough"
    opts = gen.TreeOpts(max_depth=4 if thorough else 3, count_transforms=True, bag_ranges=("N", "S"))

    @st.composite
    def cases(draw):
        spec, focus = draw(gen.specs_and_focus(opts, 8))
        if draw(st.integers(0, 5)) == 0:
            # Count(transform) templates in the sparse containers: bins the clone creates later must follow them
            spec = draw(gen.with_transform_templates(spec))
        if _qbearing(spec) and draw(st.integers(0, 5)) == 0:
            # a bare Count visited after a quantity-bearing sibling: the only place where fill.numpy hands a *scalar*
            # weight to a Count, whose transform is recognised by object identity (lost by unpickling)
            kind = draw(st.sampled_from(("Branch", "UntypedLabel")))
            kids = [spec, {"k": "Count"}]
            spec = {"k": kind, "values": kids} if kind == "Branch" else {"k": kind, "pairs": {"a": kids[0], "b": kids[1]}}
        rec = draw(gen.recipes(spec, max_rows=10, focus=focus))
        crit = gen.critical_values(spec)
        more = [[draw(gen.rows(crit, True, none_cats=False, focus=focus)), draw(gen.weights(True))] for _ in range(draw(st.integers(0, 5)))]
        batch = [[draw(gen.rows(crit, True, none_cats=False, focus=focus)), draw(st.sampled_from((1.0, 0.5, 2.0, 0.0)))] for _ in range(draw(st.integers(0, 5)))]
        return {"spec": spec, "state": rec, "protocol": draw(st.sampled_from((2, None, pickle.HIGHEST_PROTOCOL))), "more": more, "batch": batch,
                "scalar_w": draw(st.sampled_from((None, None, 1.0, 2.0, "omitted")))}

    @st.composite
    def default_cases(draw):
        # trees that hold the library's own default objects (quantity=identity, the default selection of
        # HistogramCut, value=Count()): a clone holds private copies of them and must react as the original does
        ctor = draw(st.sampled_from(sorted(default_table())))
        nums = st.sampled_from((0.0, 0.5, -1.0, 1.5, 2.0, -2.0, 3.0, float("nan"), float("inf")))
        strs = st.sampled_from(("a", "b", "zz", ""))
        kind = default_table()[ctor][1]
        val = {"num": nums, "str": strs, "row": nums}[kind]
        steps = []
        for _ in range(draw(st.integers(1, 5))):
            how = draw(st.sampled_from(("row", "numpy", "numpy-w", "numpy-sw")))
            vals = draw(st.lists(val, min_size=1, max_size=4))
            ws = [draw(st.sampled_from((1.0, 0.5, 2.0, 0.0))) for _ in vals]
            steps.append([how, vals, ws])
        return {"mode": "defaults", "ctor": ctor, "before": draw(st.lists(val, max_size=4)), "steps": steps,
                "protocol": draw(st.sampled_from((2, None, pickle.HIGHEST_PROTOCOL)))}

    @st.composite
    def mixed(draw):
        # (st.one_of would merge the repeated alternatives into one and give the defaults family half of the cases)
        return draw(default_cases()) if draw(st.integers(0, 7)) == 0 else draw(cases())

    return mixed()


def default_table():
    """name -> (constructor relying on default arguments, what a datum is)"""
    hg = lib()
    import histogrammar.convenience as cv  # noqa: PLC0415
    from histogrammar.defs import identity, unweighted  # noqa: PLC0415

    return {
        "HistogramCut(n,l,h,q)": (lambda: cv.HistogramCut(4, -2.0, 2.0, "x"), "row"),
        "Select(unweighted, Bin(n,l,h,q))": (lambda: hg.Select(unweighted, hg.Bin(4, -2.0, 2.0, "x")), "row"),
        "Label(a=HistogramCut, b=Count)": (lambda: hg.UntypedLabel(a=cv.HistogramCut(2, 0.0, 2.0, "x"), b=hg.Count()), "row"),
        "Bin(n,l,h)": (lambda: hg.Bin(4, -2.0, 2.0), "num"),
        "Bin(n,l,h,identity,Sum())": (lambda: hg.Bin(4, -2.0, 2.0, identity, hg.Sum()), "num"),
        "Select(cut=Sum())": (lambda: hg.Select(cut=hg.Sum()), "num"),
        "SparselyBin(w)": (lambda: hg.SparselyBin(1.0), "num"),
        "Average()": (lambda: hg.Average(), "num"),
        "Fraction(value=Deviate())": (lambda: hg.Fraction(value=hg.Deviate()), "num"),
        "Stack(t)": (lambda: hg.Stack([0.0, 1.0]), "num"),
        "Categorize()": (lambda: hg.Categorize(), "str"),
        "Bag()": (lambda: hg.Bag(), "str"),
    }


def named_everything():
    """One aggregator of every kind that has a quantity, each with a named quantity of its own."""
    hg = lib()
    from histogrammar.util import named  # noqa: PLC0415

    def q(n):
        return named("nm_" + n, eval("lambda d: d", {}))  # noqa: S307

    return [
        hg.Sum(q("sum")), hg.Average(q("average")), hg.Deviate(q("deviate")), hg.Minimize(q("minimize")), hg.Maximize(q("maximize")),
        hg.Bag(q("bag"), "N"), hg.Bin(2, 0.0, 1.0, q("bin")), hg.SparselyBin(1.0, q("sparselybin")), hg.CentrallyBin([0.0, 1.0], q("centrallybin")),
        hg.IrregularlyBin([0.0, 1.0], q("irregularlybin")), hg.Stack([0.0, 1.0], q("stack")), hg.Fraction(q("fraction")), hg.Select(q("select"), hg.Count()),
        hg.Categorize(q("categorize")),
        hg.Label(a=hg.Bin(2, 0.0, 1.0, q("bin2"), hg.Sum(q("sum2")))), hg.Branch(hg.Select(q("select2"), hg.Stack([0.0], q("stack2"), hg.Average(q("average2"))))),
    ]


def check_defaults(case):
    make, kind = default_table()[case["ctor"]]
    h = make()

    def datum(v):
        return {"x": v} if kind == "row" else v

    def batch(vals):
        if kind == "row":
            return {"x": np.array(vals, dtype=np.float64)}
        return np.array(vals, dtype=np.float64 if kind == "num" else object)

    for v in case["before"]:
        h.fill(datum(v))
    d0 = doc(h)
    clone = pickle.loads(pickle.dumps(h) if case["protocol"] is None else pickle.dumps(h, case["protocol"]))
    d = norm.diff(d0, doc(clone), norm.BITEXACT)
    require(not d, "clone-content-differs", lambda: f"{case['ctor']}: clone document differs: {norm.fmt(d)}")
    require((clone == h) is True and (h == clone) is True, "clone-not-equal", f"{case['ctor']}: clone == h is not True in both orders")
    # in between, the process reads other, unrelated aggregators from JSON - one of every kind, with named quantities:
    # the clone holds private copies of the library's default objects, the original the shared ones, and nothing that
    # happens to other aggregators may tell the two apart
    for other in named_everything():
        other.toImmutable()
    d = norm.diff(doc(h), doc(clone), norm.BITEXACT)
    require(not d, "clone-content-differs", lambda: f"{case['ctor']}: after unrelated aggregators were read from JSON the clone differs from the original: {norm.fmt(d)}", {"after": "unrelated-reloads"})
    require((clone == h) is True and (h == clone) is True, "clone-not-equal", f"{case['ctor']}: clone == h is not True after unrelated aggregators were read from JSON", {"after": "unrelated-reloads"})
    done = 0
    for n, (how, vals, ws) in enumerate(case["steps"]):
        outcomes = []
        for target in (h, clone):
            try:
                if how == "row":
                    for v, w in zip(vals, ws):
                        target.fill(datum(v), w)
                elif how == "numpy":
                    target.fill.numpy(batch(vals))
                elif how == "numpy-w":
                    target.fill.numpy(batch(vals), np.array(ws, dtype=np.float64))
                else:
                    target.fill.numpy(batch(vals), ws[0])
                outcomes.append("filled")
            except Exception as e:  # noqa: BLE001 - what is compared is how the two objects react, whatever that is
                outcomes.append("raised " + type(e).__name__)
        sig = {"ctor": case["ctor"].split("(")[0], "how": how}
        require(outcomes[0] == outcomes[1], "continuation-reacts-differently", f"{case['ctor']}: step {n} ({how} fill of {vals!r}): the original {outcomes[0]}, its clone {outcomes[1]}", sig)
        d = norm.diff(doc(h), doc(clone), norm.BITEXACT)
        require(not d, "continuation-" + ("row" if how == "row" else "numpy"), lambda: f"{case['ctor']}: after step {n} ({how} fill of {vals!r}, {outcomes[0]}) clone differs: {norm.fmt(d)}", sig)  # noqa: B023
        done += outcomes[0] == "filled"
    d = norm.diff(doc(h + h), doc(clone + h), norm.BITEXACT)
    require(not d, "clone-merge", lambda: f"{case['ctor']}: clone + h differs from h + h: {norm.fmt(d)}")
    return {"nontrivial": done > 0 and doc(h)["entries"] > 0, "labels": ["mode:defaults", "ctor:" + case["ctor"]]}


def doc(h):
    return norm.norm(h.toJson())


def check(case):
    lib()
    if case.get("mode") == "defaults":
        return check_defaults(case)
    spec = case["spec"]
    h = states.realize(spec, case["state"])
    reloaded = bool(case["state"].get("reload"))
    d0 = doc(h)
    blob = pickle.dumps(h) if case["protocol"] is None else pickle.dumps(h, case["protocol"])
    d = norm.diff(d0, doc(h), norm.BITEXACT)
    require(not d, "dumps-mutated-original", lambda: f"pickle.dumps changed the original: {norm.fmt(d)}")
    clone = pickle.loads(blob)
    walk.require_views(clone, "the pickle clone")
    require(clone is not h, "clone-is-original", "pickle.loads returned the original object")
    d = norm.diff(d0, doc(clone), norm.BITEXACT)
    require(not d, "clone-content-differs", lambda: f"clone document differs: {norm.fmt(d)}")
    require((clone == h) is True and (h == clone) is True and (clone != h) is False, "clone-not-equal", "clone == h is not True in both orders")
    for obj in (clone,):
        require(callable(getattr(obj, "fill", None)) and callable(getattr(obj.fill, "numpy", None)), "clone-no-fill", "clone lacks fill / fill.numpy")
        require(callable(getattr(obj, "plot", None)), "clone-no-plot", "clone lacks plot")
    clone2 = pickle.loads(pickle.dumps(clone))
    require(clone2 == h and norm.same(d0, doc(clone2), norm.BITEXACT), "second-generation", "second-generation clone differs")

    filled_special = False
    if not reloaded:
        for row, w in case["more"]:
            h.fill(row, w)
            clone.fill(row, w)
        if case["more"]:
            filled_special = any(w == w and w > 0 for _, w in case["more"]) and any(
                s.get("q", {}).get("fl") not in (None, "lambda", "def") for _, s in walk_spec(spec)
            )
        d = norm.diff(doc(h), doc(clone), norm.BITEXACT)
        require(not d, "continuation-row", lambda: f"after identical row fills clone differs: {norm.fmt(d)}")
        if _qbearing(spec) and case["batch"]:
            rows = [r for r, _ in case["batch"]]
            sw = case.get("scalar_w")
            if sw is not None and count_before_shape(spec):
                sw = None  # known finding c03-count-scalar-weight: excluded by construction
            for target in (h, clone):
                if sw is None:
                    target.fill.numpy(make_data("dict", rows), np.array([w for _, w in case["batch"]], dtype=np.float64))
                elif sw == "omitted":
                    target.fill.numpy(make_data("dict", rows))
                else:
                    target.fill.numpy(make_data("dict", rows), sw)
            d = norm.diff(doc(h), doc(clone), norm.BITEXACT)
            require(not d, "continuation-numpy", lambda: f"after identical vectorised fills clone differs: {norm.fmt(d)}")
    s = clone + h
    s2 = h + h
    d = norm.diff(doc(s2), doc(s), norm.BITEXACT)
    require(not d, "clone-merge", lambda: f"clone + h differs from h + h: {norm.fmt(d)}")

    labels = ["kind:" + k for k in kinds(spec)]
    labels += sorted({"flavour:" + s["q"]["fl"] for _, s in walk_spec(spec) if "q" in s})
    labels.append("protocol:" + str(case["protocol"]))
    if reloaded:
        labels.append("reloaded")
    return {"nontrivial": bool(d0["entries"] > 0 and filled_special), "labels": labels}
