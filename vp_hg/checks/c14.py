"""C14 - DataFrame filling is a homomorphism and agrees with direct filling."""

import contextlib
import io
import math

import numpy as np
from hypothesis import strategies as st

from .. import norm
from ..common import lib
from ..core import Violation, require

ID = "C14"
BUDGET = {"quick": (4, 400), "thorough": (16, 4000)}
TECHNIQUE = "property-based differential + metamorphic testing (Hypothesis): make_histograms vs independently built trees, whole vs chunked frames"
RULE = (
    "Generated: a pandas DataFrame of 1..40 rows with float (incl. NaN; +-inf only where the binning is not derived "
    "from quantiles), integer, boolean and timestamp (incl. NaT, the epoch and dates before 1970) columns; 1..4 features of 1..3 dimensions; binning in "
    "{auto, unit} or explicit bin_specs of every supported kind (binWidth/origin, num/low/high, edges, centers, "
    "thresholds, max, min, sum, average, deviate, bag, fraction, cut); with and without time_axis; a partition of the "
    "rows into 1..5 non-empty chunks; in a third of the cases a frame with the same column names but other column "
    "types is histogrammed first (results must not depend on earlier calls).  Oracle: every returned histogram has entries == len(df); with unit binning the returned specification "
    "of every dimension is the one the request prescribes; its document equals "
    "(names stripped) that of a tree the harness builds independently from the returned bin_specs / var_dtype with the "
    "public constructors and fills from the columns with fill.numpy and, for frames of <= 12 rows, row by row "
    "(timestamps as int64 ns, NaT -> 0 as filling_utils.to_ns documents); make_histograms(chunk_i, features, bin_specs, "
    "var_dtype, time_axis) summed with + equals the whole-frame result (counts exact, tolerance for sum / average / "
    "deviate); the input frame and its dtypes are unchanged.  Non-trivial: >= 2 chunks, >= 1 multi-dimensional feature "
    "and >= 1 NaN / NaT cell; distinct by sha1 of the case."
)
ASSUMPTIONS = [
    "string columns are outside the claim in this environment (pandas 3 string dtype), as the property states",
    "+-inf in a float column is only generated when that column's binning is explicit or 'unit' (auto-binning derives NaN specs from infinite quantiles; the statement quantifies over floats incl. NaN)",
    "the mapping bin_specs -> primitive is the documented one (make_histograms docstring)",
]

FLOATS = (0.0, 0.1, 0.5, 1.0, 1.5, 2.5, -1.0, -0.3, 3.0, 7.25, 100.0, float("nan"), float("nan"))
DATES = ("2020-01-01", "2020-01-20", "2020-02-01", "2020-03-15", "2021-01-01", "2019-12-31", "1969-12-31", "1955-03-01", "1970-01-01", None)
NUM_SPECS = ("binwidth", "numlowhigh", "edges", "centers", "thresholds", "max", "min", "sum", "average", "deviate", "bag", "fraction", "cut")


@st.composite
def num_spec(draw, last, ints):
    kinds = NUM_SPECS if last else ("binwidth", "numlowhigh", "edges", "centers", "thresholds", "fraction", "cut")
    k = draw(st.sampled_from(kinds))
    if k == "binwidth":
        return {"binWidth": draw(st.sampled_from((1.0, 0.5, 0.1, 2.0, 0.3))), "origin": draw(st.sampled_from((0.0, 0.5, -0.1)))}
    if k == "numlowhigh":
        return {"num": draw(st.sampled_from((1, 3, 4, 10))), "low": draw(st.sampled_from((0.0, -1.0, 0.1))), "high": draw(st.sampled_from((2.0, 3.0, 10.5)))}
    if k == "edges":
        return {"edges": sorted(draw(st.lists(st.sampled_from((-1.0, 0.0, 0.5, 1.0, 2.5, 3.0, 10.0)), min_size=1, max_size=4, unique=True)))}
    if k == "centers":
        return {"centers": sorted(draw(st.lists(st.sampled_from((-1.0, 0.0, 0.5, 1.0, 2.5, 3.0, 10.0)), min_size=2, max_size=4, unique=True)))}
    if k == "thresholds":
        return {"thresholds": sorted(draw(st.lists(st.sampled_from((-1.0, 0.0, 0.5, 1.0, 2.5)), min_size=1, max_size=3, unique=True)))}
    if k == "bag":
        return {"bag": True}
    return {{"max": "max", "min": "min", "sum": "sum", "average": "average", "deviate": "deviate", "fraction": "fraction", "cut": "cut"}[k]: True}


def strategy(tier):
    thorough = tier == "thorough"

    @st.composite
    def cases(draw):
        n = draw(st.integers(1, 40 if thorough else 24))
        binning = draw(st.sampled_from(("auto", "auto", "unit")))
        allow_inf = draw(st.integers(0, 3)) == 0
        cols = {
            "f1": [draw(st.sampled_from(FLOATS)) for _ in range(n)],
            "f2": [draw(st.sampled_from(FLOATS)) for _ in range(n)],
            "i1": [draw(st.sampled_from((0, 1, 2, 3, 5, 8, -2, 40))) for _ in range(n)],
            "b1": [draw(st.booleans()) for _ in range(n)],
            "t1": [draw(st.sampled_from(DATES)) for _ in range(n)],
        }
        pool = ("f1", "f2", "i1", "b1", "t1")
        nfeat = draw(st.integers(1, 4))
        feats = []
        for _ in range(nfeat):
            dims = draw(st.integers(1, 3))
            f = draw(st.lists(st.sampled_from(pool), min_size=dims, max_size=dims, unique=True))
            if f not in feats:
                feats.append(f)
        use_time = draw(st.integers(0, 3)) == 0
        if use_time:
            feats = [(["t1"] + [c for c in f if c != "t1"])[:3] for f in feats]
            feats = [f for i, f in enumerate(feats) if f not in feats[:i]]
        specs = {}
        explicit_cols = set()
        for f in feats:
            if draw(st.integers(0, 2)) == 0:
                name = ":".join(f)
                lst = []
                for j, c in enumerate(f):
                    if c == "t1" and draw(st.booleans()):
                        # an explicit timestamp binning anchored at the epoch: NaT (-> 0 ns) sits exactly on its origin
                        lst.append({"binWidth": draw(st.sampled_from((2592000000000000, 86400000000000))), "origin": 0})
                        explicit_cols.add((name, c))
                    elif c in ("b1",) or (c == "t1"):
                        lst.append({})
                    else:
                        lst.append(draw(num_spec(j == len(f) - 1, c == "i1")))
                        explicit_cols.add((name, c))
                # a leaf kind (max/min/...) must be the last dimension; {} falls back to the 1-d spec / default
                if len(f) > 1:
                    specs[name] = lst
                elif lst[0]:
                    specs[name] = lst[0]
        for c in ("f1", "f2", "i1"):
            if draw(st.integers(0, 4)) == 0:
                specs[c] = draw(num_spec(False, c == "i1")) if any(len(f) > 1 and c in f[:-1] for f in feats) else draw(num_spec(True, c == "i1"))
        # +-inf only where no quantile-derived binning can see it
        if allow_inf:
            for c in ("f1", "f2"):
                auto_sees = binning == "auto" and any(c in f and c not in specs and not (":".join(f) in specs and _has_spec(specs[":".join(f)], f, c)) for f in feats)
                if not auto_sees:
                    k = draw(st.integers(0, n - 1))
                    cols[c][k] = draw(st.sampled_from((float("inf"), -float("inf"))))
        for c in ("f1", "f2"):
            if all(isinstance(v, float) and math.isnan(v) for v in cols[c]):
                cols[c][0] = 1.0  # an all-NaN column has no quantiles to derive a binning from
        cuts = sorted(set(draw(st.lists(st.integers(1, max(1, n - 1)), max_size=4)))) if n > 1 else []
        return {"cols": cols, "features": [":".join(f) for f in feats], "binning": binning, "bin_specs": specs, "time_axis": "t1" if use_time else "", "cuts": cuts,
                "index": draw(st.sampled_from(("default", "default", "offset", "reversed", "strings"))), "chunk_copy": draw(st.booleans()),
                # another frame with the same column names but other column types may have been histogrammed before
                "prime": draw(st.integers(0, 2)) == 0}

    return cases()


def _has_spec(s, f, c):
    if isinstance(s, list):
        return bool(s[f.index(c)])
    return bool(s)


def frame(cols, lo=None, hi=None):
    import pandas as pd  # noqa: PLC0415

    sl = slice(lo, hi)
    return pd.DataFrame(
        {
            "f1": np.array(cols["f1"][sl], dtype=np.float64),
            "f2": np.array(cols["f2"][sl], dtype=np.float64),
            "i1": np.array(cols["i1"][sl], dtype=np.int64),
            "b1": np.array(cols["b1"][sl], dtype=bool),
            "t1": pd.to_datetime(cols["t1"][sl]),
        }
    )


def quiet(fn, *a, **k):
    with contextlib.redirect_stderr(io.StringIO()):
        return fn(*a, **k)


def to_ns(v):
    import pandas as pd  # noqa: PLC0415

    return 0 if v is None else int(pd.Timestamp(v).value)


def arrays(cols, lo=None, hi=None):
    sl = slice(lo, hi)
    return {
        "f1": np.array(cols["f1"][sl], dtype=np.float64),
        "f2": np.array(cols["f2"][sl], dtype=np.float64),
        "i1": np.array(cols["i1"][sl], dtype=np.int64),
        "b1": np.array(cols["b1"][sl], dtype=bool),
        "t1": np.array([to_ns(v) for v in cols["t1"][sl]], dtype=np.int64),
    }


def spec_for(bin_specs, feat, idx, is_ts):
    """The documented resolution of the bin spec of dimension idx of a feature."""
    import pandas as pd  # noqa: PLC0415

    default = {"binWidth": pd.Timedelta(days=30).value, "origin": pd.Timestamp("2010-01-04").value} if is_ts else {"binWidth": 1.0, "origin": 0.0}
    name = ":".join(feat)
    if name in bin_specs and len(feat) > 1 and len(bin_specs[name]) == len(feat):
        r = bin_specs[name][idx]
        if not r:
            r = bin_specs.get(feat[idx], default)
        return r
    return bin_specs.get(feat[idx], default)


def build_direct(bin_specs, feat):
    """Independent construction of the tree for one feature from the returned bin_specs (public constructors)."""
    hg = lib()
    h = hg.Count()
    for idx in reversed(range(len(feat))):
        c = feat[idx]
        q = eval(f"lambda d, c={c!r}: d[c]", {})  # noqa: S307
        if c == "b1":
            h = hg.Categorize(q, h)
            continue
        s = spec_for(bin_specs, feat, idx, c == "t1")
        if "binWidth" in s:
            h = hg.SparselyBin(s["binWidth"], q, h, hg.Count(), s.get("origin", 0.0))
        elif "num" in s:
            h = hg.Bin(s["num"], s["low"], s["high"], q, h)
        elif "edges" in s:
            h = hg.IrregularlyBin(list(s["edges"]), q, h)
        elif "max" in s or "maximize" in s:
            h = hg.Maximize(q)
        elif "min" in s or "minimize" in s:
            h = hg.Minimize(q)
        elif "average" in s:
            h = hg.Average(q)
        elif "deviate" in s:
            h = hg.Deviate(q)
        elif "sum" in s:
            h = hg.Sum(q)
        elif "centers" in s:
            h = hg.CentrallyBin(list(s["centers"]), q, h)
        elif "thresholds" in s:
            h = hg.Stack(list(s["thresholds"]), q, h)
        elif "bag" in s:
            h = hg.Bag(q, s.get("range", "N"))
        elif "fraction" in s:
            h = hg.Fraction(q, h)
        elif "cut" in s:
            h = hg.Select(q, h)
        else:
            raise ValueError(f"unknown bin spec {s}")
    return h


def _same_spec(a, b):
    def n(s_):
        return {k: ([float(x) for x in v] if isinstance(v, (list, tuple)) else float(v) if isinstance(v, (int, float)) and not isinstance(v, bool) else v) for k, v in s_.items()}

    return n(a) == n(b)


def ndoc(h):
    return norm.strip_empty_types(norm.norm(h.toJson(), names=False, drop_zero=True))


def check(case):  # noqa: PLR0915
    lib()
    from histogrammar.dfinterface.make_histograms import make_histograms  # noqa: PLC0415

    cols = case["cols"]
    n = len(cols["f1"])
    df = frame(cols)
    # row labels are not data: the whole frame may carry any index, and chunks are taken by position (df.iloc[a:b]),
    # so they keep the labels of their rows (a non-default index)
    how = case.get("index", "default")
    if how == "offset":
        df.index = range(100, 100 + n)
    elif how == "reversed":
        df.index = range(n - 1, -1, -1)
    elif how == "strings":
        df.index = [f"r{i}" for i in range(n)]
    before = df.copy(deep=True)
    kw = {"features": list(case["features"]), "binning": case["binning"], "bin_specs": {k: (list(v) if isinstance(v, list) else dict(v)) for k, v in case["bin_specs"].items()}}
    if case["time_axis"]:
        kw["time_axis"] = case["time_axis"]
    if case.get("prime"):
        import pandas as pd  # noqa: PLC0415

        twin_df = pd.DataFrame(
            {
                "f1": np.array([0 if (v != v or abs(v) == float("inf")) else int(v) for v in cols["f1"]], dtype=np.int64),
                "f2": np.array(cols["b1"], dtype=bool),
                "i1": np.array(cols["i1"], dtype=np.float64) + 0.5,
                "b1": np.array(cols["i1"], dtype=np.int64),
                "t1": df["t1"].to_numpy(),
            }
        )
        with contextlib.suppress(Exception):  # only what it may leave behind matters here
            quiet(make_histograms, twin_df, features=list(case["features"]), binning="unit", **({"time_axis": case["time_axis"]} if case["time_axis"] else {}))
    try:
        hists, features, bin_specs, time_axis, var_dtype = quiet(make_histograms, df, ret_specs=True, **kw)
    except ValueError as e:
        # known finding c14-auto-binning-constant-timestamp: auto-binning of a >= 3-dimensional feature derives
        # num/low/high from low = q - 0.05, high = q + 0.05 when a column holds a single value; at the magnitude of
        # nanosecond timestamps +-0.05 vanishes and Bin refuses low == high.
        const_ts = len({to_ns(v) for v in cols["t1"]}) == 1
        deep = [f for f in case["features"] if f.count(":") >= 2 and "t1" in f.split(":")]
        if "must be less than high" in str(e) and case["binning"] == "auto" and const_ts and deep:
            raise Violation(
                "auto-binning-constant-timestamp",
                f"make_histograms(binning='auto') raised {e} for feature(s) {deep} whose timestamp column holds one distinct value",
                {"column": "timestamp", "distinct": 1, "dims": ">=3", "binning": "auto"},
            ) from None
        raise
    require(df.equals(before) and list(df.dtypes) == list(before.dtypes), "input-modified", "make_histograms modified the input dataframe")
    require(sorted(hists) == sorted(case["features"]), "features-missing", f"requested {case['features']}, got {sorted(hists)}")
    # counts are sums of unit weights (exact); 'fraction' / 'cut' specs use a column's values as weights and the
    # leaf specs accumulate column values: those sums are only compared up to floating-point rounding
    weighted = any(("fraction" in s or "cut" in s or "sum" in s) for v in list(case["bin_specs"].values()) for s in (v if isinstance(v, list) else [v]) if isinstance(s, dict))
    pol = norm.Policy(exact=not weighted, scale=1e3)
    data = arrays(cols)
    multi = False
    for name, h in hists.items():
        feat = name.split(":")
        multi = multi or len(feat) > 1
        if case["binning"] == "unit":
            # with unit binning nothing is derived from the data: the binning of every dimension is the one the REQUEST
            # prescribes (its n-dim entry, else its 1-dim entry, else the documented default), whatever was
            # histogrammed before it
            for idx, c in enumerate(feat):
                if c == "b1":
                    continue
                want_s, got_s = spec_for(case["bin_specs"], feat, idx, c == "t1"), spec_for(bin_specs, feat, idx, c == "t1")
                require(_same_spec(want_s, got_s), "binning-not-as-requested", f"feature {name}, dimension {c}: the request prescribes {want_s}, the returned specification says {got_s}", {"what": "returned-spec"})
        require(h.entries == n, "entries-not-rows", f"feature {name}: entries = {h.entries!r} for a dataframe of {n} rows", {"what": "entries"})
        twin = build_direct(bin_specs, feat)
        twin.fill.numpy(data)
        d = norm.diff(ndoc(twin), ndoc(h), pol)
        require(not d, "differs-from-direct-fill", lambda: f"feature {name} ({bin_specs.get(name, '<1-d specs>')}): make_histograms vs the same tree filled with fill.numpy from the columns: {norm.fmt(d)}", {"what": "direct"})  # noqa: B023
        if n <= 12:
            rt = build_direct(bin_specs, feat)
            for i in range(n):
                rt.fill({c: (v[i].item() if c != "b1" else bool(v[i])) for c, v in data.items()})
            d = [x for x in norm.diff(ndoc(rt), ndoc(h), pol) if not (x[0] and x[0][-1] == "sum" and isinstance(x[1], float) and x[1] != x[1])]
            require(not d, "differs-from-row-fill", lambda: f"feature {name}: make_histograms vs the same tree filled row by row: {norm.fmt(d)}", {"what": "rows"})  # noqa: B023

    # homomorphism over row-wise chunks, re-using the returned specification
    bounds = [0] + list(case["cuts"]) + [n]
    chunks = [(a, b) for a, b in zip(bounds, bounds[1:]) if b > a]
    total = None
    for a, b in chunks:
        piece = df.iloc[a:b]
        if case.get("chunk_copy"):
            piece = piece.copy()
        part = quiet(make_histograms, piece, features=features, bin_specs=bin_specs, var_dtype=var_dtype, time_axis=time_axis if time_axis else "", binning=case["binning"])
        require(sorted(part) == sorted(hists), "chunk-features", f"chunk {a}:{b} produced features {sorted(part)}, whole frame {sorted(hists)}")
        total = part if total is None else {k: total[k] + part[k] for k in total}
    for name, h in hists.items():
        d = norm.diff(ndoc(h), ndoc(total[name]), pol)
        require(not d, "chunks-do-not-add-up", lambda: f"feature {name}: sum of {len(chunks)} chunk histograms differs from the whole-frame histogram: {norm.fmt(d)}", {"what": "chunks"})  # noqa: B023

    has_nan = any(isinstance(v, float) and math.isnan(v) for c in ("f1", "f2") for v in cols[c]) or any(v is None for v in cols["t1"])
    labels = ["binning:" + case["binning"], f"chunks:{len(chunks)}", "time_axis" if case["time_axis"] else "no-time-axis"]
    labels += sorted({"spec:" + next(iter(s)) for v in case["bin_specs"].values() for s in (v if isinstance(v, list) else [v]) if s})
    labels += sorted({f"dims:{len(f.split(':'))}" for f in case["features"]})
    return {"nontrivial": len(chunks) >= 2 and multi and has_nan, "labels": labels}
