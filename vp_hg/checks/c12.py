"""C12 - a fill that raises leaves the aggregator as if the record had been skipped (fault injection)."""

import math

from hypothesis import strategies as st

from .. import gen, norm
from ..common import lib
from ..core import require
from ..spec import build, eval_q, kinds, make_callable, walk_spec

ID = "C12"
BUDGET = {"quick": (4, 500), "thorough": (16, 6000)}
TECHNIQUE = "property-based fault injection (Hypothesis): quantity functions fail on a generated schedule; rollback oracle"
RULE = (
    "Generated: a single-path tree (Bin, SparselyBin, CentrallyBin, IrregularlyBin, Categorize, Select nested "
    "arbitrarily over any leaf, flows included; no fan-out collections), a weighted stream, and for a generated subset "
    "of stream positions a fault (depth of the node whose quantity fails; mode: raise ValueError, or return a wrong "
    "type - string / None / list for numeric quantities, float / list for categories; or the almost-right numpy.bool_, "
    "which a node may refuse (before anything changed) or accept (then it counts exactly like the Python bool True) - "
    "but always the same way for an identical record; a quarter of the faulted records repeat the previous one).  The schedule is part of the "
    "shrinkable case: rows carry fail_at / fail_mode and the generated quantity functions consult them.  Oracle: a row "
    "whose fault is reached (decided by the harness's own routing) makes fill raise and leaves the root's document "
    "exactly as before (no counter moved, no new bin); a row whose fault is not reached, or that has none, does not "
    "raise; at the end the document equals that of a twin fed only the surviving rows in the same order.  Non-trivial: "
    ">= 1 reached fault at depth >= 1 whose row was routed to a not-yet-existing sparse bin / category after >= 1 "
    "successful fill; distinct by sha1 of the case."
)
ASSUMPTIONS = [
    "collections that fan one datum out to several children (Label, UntypedLabel, Index, Branch, Stack, Fraction) are outside the guarantee by the statement and are not generated",
    "toJson() exposes all content, including empty bins left behind",
]

SINGLE_PATH = ("Bin", "SparselyBin", "SparselyBin", "CentrallyBin", "IrregularlyBin", "Categorize", "Categorize", "Select") + gen.LEAF_KINDS + ("Count", "Count", "Count")
MODES = ("raise", "wrong-a", "wrong-b", "wrong-c", "wrong-d")


def strategy(tier):
    thorough = tier == "thorough"
    opts = gen.TreeOpts(max_depth=4 if thorough else 3, kinds=SINGLE_PATH, flavours=("lambda",), affine=True, bag_ranges=("N", "S", "N2"), max_bins=6, flow_odds=2)

    @st.composite
    def cases(draw):
        spec = draw(gen.tree_specs(opts))
        if draw(st.booleans()):
            # flow slots are full aggregators with quantities of their own: give half of the plain ones a quantity
            for _, node in list(walk_spec(spec)):
                for slot in ("underflow", "overflow", "nanflow"):
                    if node.get(slot) == {"k": "Count"} and draw(st.booleans()):
                        node[slot] = draw(gen.leaf_specs(opts, ("Sum", "Average", "Minimize", "Bag")))
        stream, _ = draw(gen.streams(spec, max_rows=40 if thorough else 20, focus=draw(st.booleans())))
        rows = []
        last_fault = None
        for r, w in stream:
            r = dict(r)
            if last_fault is not None and draw(st.integers(0, 3)) == 0:
                # the same failing record again (directly or after others): a node must answer it the same way every time
                r = dict(last_fault)
                rows.append([r, w])
                continue
            if draw(st.integers(0, 2)) == 0:
                targets = [(p, s_) for p, s_ in walk_spec(spec) if "q" in s_]
                if targets and draw(st.booleans()):
                    # aim the record at a uniformly chosen quantity-bearing node (flow slots included) and fail there
                    tp, _ = draw(st.sampled_from(targets))
                    aim(spec, r, tp)
                    r["fail_at"] = len(tp)
                else:
                    n_q = route_len(spec, r, w)
                    if n_q and draw(st.integers(0, 7)) != 0:
                        r["fail_at"] = draw(st.integers(0, n_q - 1))
                    else:
                        r["fail_at"] = draw(st.sampled_from((0, 1, 1, 2, 2, 3)[: 2 * opts.max_depth - 2]))
                r["fail_mode"] = draw(st.sampled_from(MODES))
            if "fail_at" in r:
                last_fault = r
            rows.append([r, w])
            if draw(st.integers(0, 9)) == 0:
                # the aggregator under test need not be a freshly built one: replace it by a derived object
                rows.append(["@op", draw(st.sampled_from(("copy", "plus-zero", "zero-plus", "times1")))])
        return {"spec": spec, "stream": rows}

    return cases()


def wrong_value(q, mode):
    """A value of the wrong type for quantity q (never a legitimately accepted one)."""
    t = q["t"]
    if mode == "wrong-d":
        # almost right: a numpy.bool_ is neither a numbers.Real nor a bool.  Most fills refuse it (known finding
        # c03-row-numpy-bool), Bag accepts it: either is fine here - refused before anything changed, or accepted
        # and counted exactly like the Python bool True
        import numpy as np  # noqa: PLC0415

        return np.bool_(True)
    if mode == "py-true":
        return True
    if t == "cat":  # string/bool category; None and NaN are legitimate ('NaN' category)
        return {"wrong-a": 1.5, "wrong-b": [1.0], "wrong-c": 7}[mode]
    if t == "pair":
        return {"wrong-a": "ab", "wrong-b": None, "wrong-c": (1.0,)}[mode]
    return {"wrong-a": "abc", "wrong-b": None, "wrong-c": [1.0]}[mode]


def qhook(path, spec, q):
    depth = len(path)
    base = make_callable(q, "lambda")

    def quantity(datum, _base=base, _depth=depth, _q=q):
        if datum.get("fail_at") == _depth:
            mode = datum["fail_mode"]
            if mode == "raise":
                raise ValueError("injected failure")
            return wrong_value(_q, mode)
        return _base(datum)

    return quantity


def aim(spec, row, path):
    """Best effort: change the columns of `row` so that it is routed along `path` (slot names from the root)."""
    node = spec
    for slot in path:
        q = node.get("q")
        k = node["k"]
        if q and q["t"] in ("num", "gt"):
            col, a, b = q["col"], q.get("a", 1.0), q.get("b", 0.0)

            def put(v, col=col, a=a, b=b, q=q):
                row[col] = v if q["t"] == "gt" or a == 0 else (v - b) / a

            if k in ("Select", "Fraction"):
                if q["t"] == "gt":
                    row[col] = q["thr"] + 1.0
                else:
                    row[col] = 1.0
            elif slot == "nanflow":
                row[col] = float("nan")
            elif slot == "underflow":
                put(node["low"] - 1.0)
            elif slot == "overflow":
                put(node["high"] + 1.0)
            elif k == "Bin":
                cur = eval_q(q, row)
                if not (isinstance(cur, float) and node["low"] <= cur < node["high"]):
                    put((node["low"] + node["high"]) / 2.0)
            else:
                cur = eval_q(q, row)
                if not isinstance(cur, float) or cur != cur or abs(cur) == float("inf"):
                    put(0.5)
        node = node[slot]


def route_len(spec, row, w):
    """Number of quantity functions evaluated on the way of this record from the root to its leaf."""
    probe = dict(row)
    n = 0
    for d in range(12):
        probe["fail_at"] = d
        if not reached(spec, probe, w)[0]:
            break
        n = d + 1
    return n


def reached(spec, row, w, depth=0):
    """(fails, fresh_sparse): does the row's fault get evaluated, per the harness's own routing; was a sparse
    container entered on the way (so that a new bin could be left behind)?"""
    if isinstance(w, float) and math.isnan(w) or not w > 0:
        return False, False
    k = spec["k"]
    if "q" not in spec:
        return False, False
    if row.get("fail_at") == depth:
        return True, False
    q = eval_q(spec["q"], row)
    nxt, sparse = None, False
    if k == "Bin":
        if isinstance(q, float) and math.isnan(q):
            nxt = spec["nanflow"]
        elif q < spec["low"]:
            nxt = spec["underflow"]
        elif q >= spec["high"]:
            nxt = spec["overflow"]
        else:
            nxt = spec["value"]
    elif k in ("SparselyBin", "CentrallyBin", "IrregularlyBin"):
        if isinstance(q, float) and math.isnan(q):
            nxt = spec["nanflow"]
        else:
            nxt, sparse = spec["value"], k == "SparselyBin"
    elif k == "Categorize":
        nxt, sparse = spec["value"], True
    elif k == "Select":
        if isinstance(q, float) and math.isnan(q):
            return False, False
        w = q * w
        if not w > 0:
            return False, False
        nxt = spec["cut"]
    else:
        return False, False
    f, s = reached(nxt, row, w, depth + 1)
    return f, (s or sparse) if f else False


def check(case):
    lib()
    spec = case["spec"]
    h = build(spec, qhook)
    twin = build(spec, qhook)
    before = norm.norm(h.toJson())
    successes = 0
    verdicts = {}

    def key_of(row_):
        return (row_["fail_at"],) + tuple(sorted((k, repr(v)) for k, v in row_.items() if k not in ("fail_mode",)))

    nontrivial = False
    nfaults = 0
    derived = 0
    for i, (row, w) in enumerate(case["stream"]):
        if row == "@op":
            objs = []
            for o in (h, twin):
                if w == "copy":
                    o = o.copy()
                elif w == "plus-zero":
                    o = o + o.zero()
                elif w == "zero-plus":
                    o = o.zero() + o
                elif not any(s_["k"] == "Count" and s_.get("transform") for _, s_ in walk_spec(spec)):
                    o = o * 1.0
                objs.append(o)
            h, twin = objs
            verdicts.clear()
            after = norm.norm(h.toJson())
            d = norm.diff(before, after, norm.BITEXACT)
            require(not d, "derivation-changed-content", lambda: f"step {i}: {w} changed the content: {norm.fmt(d)}")  # noqa: B023
            derived += 1
            continue
        fails, sparse = reached(spec, row, w)
        raised = None
        try:
            h.fill(row, w)
        except (ValueError, TypeError, AssertionError) as e:
            raised = e
        after = norm.norm(h.toJson())
        if fails and row.get("fail_mode") == "wrong-d":
            key = key_of(row)
            verdict = "refused" if raised is not None else "accepted"
            prev = verdicts.setdefault(key, verdict)
            require(prev == verdict, "inconsistent-type-check", f"row {i}: the node at depth {row['fail_at']} {verdict} a numpy.bool_ that it had {prev} for an identical record before", {"mode": "wrong-d"})
        if fails and raised is None and row.get("fail_mode") == "wrong-d":
            # accepted: then it must count like the equal Python value
            twin.fill(dict(row, fail_mode="py-true"), w)
            successes += 1
            before = after
            continue
        if fails:
            nfaults += 1
            require(raised is not None, "fault-swallowed", f"row {i} ({row.get('fail_mode')} at depth {row.get('fail_at')}) did not make fill raise")
            d = norm.diff(before, after, norm.BITEXACT)
            require(
                not d,
                "failed-fill-changed-state",
                lambda: f"row {i}: fill raised {type(raised).__name__} (fault {row['fail_mode']} at depth {row['fail_at']}) but the aggregator changed: {norm.fmt(d)}",  # noqa: B023
                {"mode": "raise" if row["fail_mode"] == "raise" else "wrong-type"},
            )
            if row["fail_at"] >= 1 and sparse and successes >= 1:
                nontrivial = True
        else:
            require(raised is None, "spurious-exception", lambda: f"row {i} has no reachable fault but fill raised {type(raised).__name__}: {raised}")  # noqa: B023
            clean = {k: v for k, v in row.items() if k not in ("fail_at", "fail_mode")}
            twin.fill(clean, w)
            if w == w and w > 0:
                successes += 1
        before = after
    d = norm.diff(norm.norm(twin.toJson()), before, norm.BITEXACT)
    require(not d, "survivors-differ", lambda: f"aggregate differs from a twin fed only the surviving records: {norm.fmt(d)}")
    labels = ["kind:" + k for k in kinds(spec)] + [f"faults:{min(nfaults, 3)}{'+' if nfaults > 3 else ''}"] + (["derived-object"] if derived else [])
    return {"nontrivial": nontrivial, "labels": labels}
