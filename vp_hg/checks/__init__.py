"""One module per property."""
