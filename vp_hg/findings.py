"""Known-findings file: loaded once, never written at run time.

/verif/known_findings.json:
  {"known": [{"id": "...", "property": "C10", "kind": "...", "match": {...}, "what": "...", "witness": "replays/..."}],
   "fixed": ["fixed: property=C16 <commit> <what failed>", ...]}

A violation raised by a check carries (property, kind, sig) where sig is a small dict describing the precise call
site / condition.  It is covered by a known entry iff property and kind are equal and every key of the entry's
"match" dict is present in sig with an equal value.  Anything else is reported as a new violation.
"fixed" entries suppress nothing.
"""

import json
import os

from .common import VERIF

_cache = None


def load():
    global _cache
    if _cache is None:
        p = os.path.join(VERIF, "known_findings.json")
        if os.path.exists(p):
            with open(p) as f:
                _cache = json.load(f)
        else:
            _cache = {"known": [], "fixed": []}
    return _cache


def match(prop, kind, sig):
    for e in load().get("known", []):
        if e["property"] != prop or e["kind"] != kind:
            continue
        if all(sig.get(k) == v for k, v in e.get("match", {}).items()):
            return e
    return None


def known_for(prop):
    return [e for e in load().get("known", []) if e["property"] == prop]
