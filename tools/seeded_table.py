#!/venv/bin/python
"""Render the table of seeded changes (seeded/*/meta.json) into DESIGN.md between the SEEDED-TABLE markers."""
import json, os, re
ROOT = os.path.dirname(os.path.dirname(os.path.abspath(__file__)))
rows = []
for n in sorted(os.listdir(os.path.join(ROOT, "seeded"))):
    mp = os.path.join(ROOT, "seeded", n, "meta.json")
    if not os.path.exists(mp):
        continue
    m = json.load(open(mp))
    res = ", ".join(f"{k}: {v}" for k, v in m.get("quick_check_results", {}).items())
    hist = m.get("history", "")
    rows.append(f"| `{n}` | {m['property']} | {m.get('what','')[:260]} | {m.get('needs','')[:300]} | {res} | {hist[:420]} |")
table = "\n".join(["| seeded change | property | what it does | what it needs to manifest | quick checks run against it | history |", "|---|---|---|---|---|---|"] + rows)
p = os.path.join(ROOT, "DESIGN.md")
s = open(p).read()
b, e = "<!-- SEEDED-TABLE-BEGIN -->", "<!-- SEEDED-TABLE-END -->"
if b not in s:
    raise SystemExit("markers missing")
s = s[: s.index(b) + len(b)] + "\n" + table + "\n" + s[s.index(e):]
open(p, "w").write(s)
print(len(rows), "rows")
