#!/venv/bin/python
"""Regenerate /verif/MANIFEST.json from the check modules that exist (keeps the manifest valid at all times)."""
import importlib, json, os, sys
sys.path.insert(0, os.path.dirname(os.path.dirname(os.path.abspath(__file__))))
ROOT = os.path.dirname(os.path.dirname(os.path.abspath(__file__)))
ALL = [f"C{i:02d}" for i in range(1, 18)]
RUN = "PYTHONHASHSEED=0 /venv/bin/python -m vp_hg.run"
checks, na = [], []
for pid in ALL:
    path = os.path.join(ROOT, "vp_hg", "checks", pid.lower() + ".py")
    if not os.path.exists(path):
        na.append({"property_id": pid, "reason": "check not built yet (planned, see DESIGN.md section 5); not a limit of the technique"})
        continue
    mod = importlib.import_module(f"vp_hg.checks.{pid.lower()}")
    checks.append({
        "property_id": pid,
        "quick_cmd": f"{RUN} {pid} --tier quick",
        "thorough_cmd": f"{RUN} {pid} --tier thorough",
        "evidence_file": f"/verif/evidence/{pid}.json",
        "replay_cmd_template": f"{RUN} {pid} --replay {{path}}",
        "engine": "vp_hg",
        "level_claimed": {
            "category": "exploration",
            "text": mod.LEVEL_TEXT if hasattr(mod, "LEVEL_TEXT") else "Generated-input search (Hypothesis) against an explicit oracle; held on every case explored, no proof of absence.",
            "design_ref": f"DESIGN.md section 5, {pid}",
        },
        "level_note": "; ".join(getattr(mod, "ASSUMPTIONS", [])) or "trusts the harness's normaliser and reference model",
        "technique": getattr(mod, "TECHNIQUE", "property-based testing (Hypothesis)"),
    })
man = {
    "version": 1,
    "setup_cmd": "bash /verif/tools/setup.sh",
    "hooks": {
        "guard": "HISTOGRAMMAR_PYTHON_VERIF",
        "enable": "no source hooks are needed; checks import /repo's working tree directly (VP_REPO overrides the path)",
        "baseline_off_cmd": "cd /repo && /venv/bin/python -m pytest -ra -q -p no:cacheprovider --timeout=900 --continue-on-collection-errors",
        "source_commits": [],
        "add_only": True,
    },
    "engines": [{"name": "vp_hg", "path": "/verif/vp_hg", "serves_properties": [c["property_id"] for c in checks],
                 "kind_free_text": "Hypothesis property-based testing harness (stateless + rule-based state machines) with an exact-rational reference model; Atheris drives the same properties for the parser-shaped ones"}],
    "checks": checks,
    "not_applicable": na,
    "notes": "Every check: exit 0 = held on everything explored (KNOWN-FINDING lines for entries of known_findings.json), exit 1 + VIOLATION line = new violation, exit 2 = harness error. VERIF_SEED and VERIF_TIER honoured.",
}
if not na:
    man.pop("not_applicable")
json.dump(man, open(os.path.join(ROOT, "MANIFEST.json"), "w"), indent=1)
try:
    import jsonschema
    jsonschema.validate(man, json.load(open("/root/.vp/MANIFEST.schema.json")))
    print("MANIFEST.json valid;", len(checks), "checks,", len(na), "not applicable")
except ImportError:
    print("written (jsonschema not available)")
