#!/bin/bash
# Offline setup: make sure Hypothesis is importable by /venv's python; install Atheris beside /verif (optional).
set -u
cd "$(dirname "$0")/.."
export PIP_NO_INDEX=1
W=/opt/veriftools/wheels
/venv/bin/python -c "import hypothesis" 2>/dev/null || /venv/bin/pip install -q --no-index --find-links $W hypothesis || exit 1
mkdir -p .deps
if ! PYTHONPATH=.deps /venv/bin/python -c "import atheris" 2>/dev/null; then
  /venv/bin/pip install -q --no-index --find-links $W --target .deps atheris 2>/dev/null || echo "atheris unavailable: thorough tiers run Hypothesis only"
fi
/venv/bin/python -c "import hypothesis, numpy, pandas; print('hypothesis', hypothesis.__version__)" || exit 1
PYTHONPATH=/repo /venv/bin/python -c "import histogrammar; print('histogrammar from', histogrammar.__file__)" || exit 1
exit 0
