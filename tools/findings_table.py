#!/venv/bin/python
"""Regenerate the tables of repaired / recorded defects in DESIGN.md from known_findings.json (between markers)."""
import json, os, re, subprocess
ROOT = os.path.dirname(os.path.dirname(os.path.abspath(__file__)))
k = json.load(open(os.path.join(ROOT, "known_findings.json")))
rows = []
for line in k["fixed"]:
    m = re.match(r"fixed: property=(C\d+) (\w+) (.*)", line)
    prop, h, what = m.groups()
    subj = subprocess.run(["git", "-C", "/repo", "log", "-1", "--format=%s", h], capture_output=True, text=True).stdout.strip()
    rows.append(f"| {prop} | `{h}` | {subj[5:]} | {what} |")
fixed = "\n".join(["| property | commit | fix | failing input / call site (replay) |", "|---|---|---|---|"] + rows)
known = "\n".join(["| property | id | what fails (signature the matcher accepts) | witness |", "|---|---|---|---|"] +
                  [f"| {e['property']} | `{e['id']}` | {e['what']} | `{e['witness']}` |" for e in k["known"]])
p = os.path.join(ROOT, "DESIGN.md")
s = open(p).read()
for tag, table in (("FIXED", fixed), ("KNOWN", known)):
    b, e = f"<!-- {tag}-TABLE-BEGIN -->", f"<!-- {tag}-TABLE-END -->"
    s = s[: s.index(b) + len(b)] + "\n" + table + "\n" + s[s.index(e):]
s = re.sub(r"\(\d+ `fix:` commits, oldest first\)", f"({len(rows)} `fix:` commits, oldest first)", s)
s = re.sub(r"\(\d+ `fix:`\ncommits in /repo, \d+ entries", f"({len(rows)} `fix:`\ncommits in /repo, {len(k['known'])} entries", s)
open(p, "w").write(s)
print(len(rows), "fixed,", len(k["known"]), "known")
