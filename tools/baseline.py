#!/venv/bin/python
"""Run the repository's pinned baseline (guard off) and compare with /root/.vp/BASELINE.json stable_pass."""
import json, os, subprocess, sys, tempfile
import xml.etree.ElementTree as ET

base = json.load(open("/root/.vp/BASELINE.json"))
repo = os.environ.get("VP_REPO", "/repo")
with tempfile.TemporaryDirectory() as d:
    x = os.path.join(d, "j.xml")
    env = dict(os.environ)
    env.pop("HISTOGRAMMAR_PYTHON_VERIF", None)
    env["PYTHONPATH"] = repo
    p = subprocess.run(
        ["/venv/bin/python", "-m", "pytest", "-ra", "-q", "-p", "no:cacheprovider", "--timeout=900",
         "--continue-on-collection-errors", f"--junitxml={x}"], cwd=repo, env=env, capture_output=True, text=True)
    passed = set()
    for tc in ET.parse(x).getroot().iter("testcase"):
        if not any(c.tag in ("failure", "error", "skipped") for c in tc):
            passed.add(f"{tc.get('classname')}::{tc.get('name')}")
missing = [t for t in base["stable_pass"] if t not in passed]
print(f"baseline: {len(base['stable_pass']) - len(missing)}/{len(base['stable_pass'])} stable tests pass; total passed {len(passed)}")
for t in missing:
    print("MISSING", t)
sys.exit(1 if missing else 0)
