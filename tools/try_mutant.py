#!/venv/bin/python
"""usage: tools/try_mutant.py <mutant.json|patch.diff> <Cnn> [Cnn ...]   (env: VERIF_SEED, TIER, EXAMPLES, VERBOSE)

Applies a mutant to a scratch copy of /repo (under /tmp, never /repo itself), runs the named checks against it
through VP_REPO, prints one line per check (rc=1 means detected) and removes the scratch copy.
A .json mutant is {"property": "...", "what": "...", "edits": [{"file": ..., "old": ..., "new": ...}]} (exact, unique
text replacement); a .diff is applied with `git apply`.
"""
import json, os, shutil, subprocess, sys, tempfile, time

ROOT = os.path.dirname(os.path.dirname(os.path.abspath(__file__)))

def make_scratch(mut):
    s = tempfile.mkdtemp(prefix="vpmut.", dir="/tmp")
    repo = os.path.join(s, "repo")
    os.makedirs(repo)
    files = subprocess.run(["git", "ls-files"], cwd="/repo", capture_output=True, text=True, check=True).stdout.split("\n")
    for f in files:
        if f and (f.startswith("histogrammar/") or f in ("pyproject.toml",)):
            os.makedirs(os.path.dirname(os.path.join(repo, f)), exist_ok=True)
            shutil.copy2(os.path.join("/repo", f), os.path.join(repo, f))
    if mut.endswith(".json"):
        m = json.load(open(mut))
        for e in m["edits"]:
            p = os.path.join(repo, e["file"])
            src = open(p).read()
            if src.count(e["old"]) != 1:
                shutil.rmtree(s)
                sys.exit(f"MUTANT-FAILED {mut}: 'old' occurs {src.count(e['old'])} times in {e['file']}")
            open(p, "w").write(src.replace(e["old"], e["new"]))
    else:
        r = subprocess.run(["git", "apply", "--unsafe-paths", f"--directory={repo}", os.path.abspath(mut)], cwd=repo, capture_output=True, text=True)
        if r.returncode:
            r = subprocess.run(["patch", "-p1", "-s", "-i", os.path.abspath(mut)], cwd=repo, capture_output=True, text=True)
        if r.returncode:
            shutil.rmtree(s)
            sys.exit(f"MUTANT-FAILED {mut}: {r.stderr or r.stdout}")
    return s, repo

def main():
    mut, pids = sys.argv[1], sys.argv[2:]
    s, repo = make_scratch(mut)
    rcs = []
    try:
        for pid in pids:
            env = dict(os.environ, VP_REPO=repo, PYTHONHASHSEED="0", PYTHONDONTWRITEBYTECODE="1")
            cmd = ["/venv/bin/python", "-m", "vp_hg.run", pid, "--tier", os.environ.get("TIER", "quick"), "--no-evidence"]
            if os.environ.get("EXAMPLES"):
                cmd += ["--examples", os.environ["EXAMPLES"]]
            t0 = time.time()
            r = subprocess.run(cmd, cwd=ROOT, env=env, capture_output=True, text=True)
            lines = (r.stdout + r.stderr).split("\n")
            first = next((l for l in lines if l.startswith(("VIOLATION", "HARNESS-ERROR"))), "")
            kind = next((l for l in lines if ": " in l and not l.startswith((" ", "VIOLATION", "KNOWN", "WARNING", "C"))), "")[:200]
            print(f"{os.path.basename(mut)} {pid} rc={r.returncode} {time.time()-t0:.0f}s {first} | {kind}", flush=True)
            if os.environ.get("VERBOSE"):
                print("\n".join(lines[-25:]))
            rcs.append(r.returncode)
    finally:
        shutil.rmtree(s, ignore_errors=True)
    sys.exit(0 if all(rc == 1 for rc in rcs) else 3)

main()
