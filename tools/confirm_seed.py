#!/venv/bin/python
"""usage: tools/confirm_seed.py <worktree> <name> <Cnn> [more Cnn]

Confirms a seeded change delivered by a sub-agent in <worktree>/_seed (patch.diff, demo.py, meta.json) and, if it
holds up, stores it as /verif/seeded/<name>/:
  1. the demonstration exits non-zero with the change and zero without it (git stash in the worktree);
  2. the repository's stable baseline (79 tests) still passes with the change;
  3. the named quick checks are run against a scratch copy with the change (tools/try_mutant.py).
"""
import json, os, shutil, subprocess, sys

ROOT = os.path.dirname(os.path.dirname(os.path.abspath(__file__)))
wt, name, props = sys.argv[1], sys.argv[2], sys.argv[3:]
seed = os.path.join(wt, "_seed")
env = dict(os.environ, PYTHONPATH=wt, PYTHONHASHSEED="0")

def sh(cmd, **kw):
    return subprocess.run(cmd, capture_output=True, text=True, **kw)

patch = sh(["git", "-C", wt, "diff", "--", "histogrammar"]).stdout
assert patch.strip(), "no change applied in the worktree"
with_change = sh(["/venv/bin/python", os.path.join(seed, "demo.py")], cwd=wt, env=env)
# (git stash is shared by all worktrees of a repository: undo / redo the change with git apply instead)
tmp_patch = os.path.join(seed, ".confirm.patch")
open(tmp_patch, "w").write(patch)
assert sh(["git", "-C", wt, "apply", "-R", tmp_patch]).returncode == 0
try:
    without = sh(["/venv/bin/python", os.path.join(seed, "demo.py")], cwd=wt, env=env)
finally:
    assert sh(["git", "-C", wt, "apply", tmp_patch]).returncode == 0
    os.remove(tmp_patch)
print("demo with change rc =", with_change.returncode, "| without rc =", without.returncode)
base = sh(["/venv/bin/python", os.path.join(ROOT, "tools", "baseline.py")], env=dict(os.environ, VP_REPO=wt))
print(base.stdout.strip().split("\n")[0])
ok = with_change.returncode != 0 and without.returncode == 0 and base.returncode == 0
if not ok:
    print("NOT CONFIRMED")
    print(with_change.stdout[-800:], without.stdout[-800:], base.stdout[-800:])
    sys.exit(1)
dest = os.path.join(ROOT, "seeded", name)
os.makedirs(dest, exist_ok=True)
open(os.path.join(dest, "patch.diff"), "w").write(patch)
shutil.copy(os.path.join(seed, "demo.py"), os.path.join(dest, "demo.py"))
meta = json.load(open(os.path.join(seed, "meta.json")))
results = {}
for p in props:
    r = sh([os.path.join(ROOT, "tools", "try_mutant.py"), os.path.join(dest, "patch.diff"), p], cwd=ROOT)
    line = next((l for l in (r.stdout + r.stderr).split("\n") if " rc=" in l), "")
    print(line[:400])
    results[p] = "detected" if " rc=1 " in line else "missed" if " rc=0 " in line else "error"
meta.update({
    "origin": "written by an independent sub-agent that saw only the property text and a private worktree of /repo",
    "confirmed": {"demo_with_change_rc": with_change.returncode, "demo_without_change_rc": without.returncode,
                  "baseline": base.stdout.strip().split("\n")[0],
                  "commands": ["PYTHONPATH=<worktree> /venv/bin/python _seed/demo.py (with and without the change)",
                               "VP_REPO=<worktree> tools/baseline.py", "tools/try_mutant.py seeded/%s/patch.diff <check>" % name]},
    "quick_check_results": results,
    "detected_by": [p for p, v in results.items() if v == "detected"],
})
json.dump(meta, open(os.path.join(dest, "meta.json"), "w"), indent=1)
print("stored", dest, results)
