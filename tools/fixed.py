#!/venv/bin/python
"""usage: tools/fixed.py <property> <commit|HEAD~n> <what failed ... (replay)>  -- append a 'fixed:' line to known_findings.json"""
import json, subprocess, sys
prop, rev, what = sys.argv[1], sys.argv[2], " ".join(sys.argv[3:])
h = subprocess.run(["git", "-C", "/repo", "rev-parse", "--short", rev], capture_output=True, text=True, check=True).stdout.strip()
k = json.load(open("/verif/known_findings.json"))
k["fixed"].append(f"fixed: property={prop} {h} {what}")
json.dump(k, open("/verif/known_findings.json", "w"), indent=1)
print(k["fixed"][-1])
