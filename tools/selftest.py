#!/venv/bin/python
"""Sensitivity self-test: run each mutant in /verif/mutants (and each seeded change in /verif/seeded) against the quick
check(s) of the property it breaks, in a scratch copy of /repo, and write SENSITIVITY.md.

usage: tools/selftest.py [--only substring] [--seeds 1,2] [--jobs 4]
"""
import argparse
import concurrent.futures as cf
import json
import os
import re
import subprocess
import sys
import time

ROOT = os.path.dirname(os.path.dirname(os.path.abspath(__file__)))


def fixed_map():
    """commit hash -> (properties, text) from known_findings.json 'fixed' lines."""
    k = json.load(open(os.path.join(ROOT, "known_findings.json")))
    out = {}
    for line in k["fixed"]:
        m = re.match(r"fixed: property=(C\d+) (\w+) (.*)", line)
        if m:
            out[m.group(2)] = (m.group(1), m.group(3))
    return out


def mutants(only):
    fm = fixed_map()
    items = []
    d = os.path.join(ROOT, "mutants")
    for n in sorted(os.listdir(d)):
        p = os.path.join(d, n)
        if only and only not in n:
            continue
        if n == "REVERT_PROPS.json":
            continue
        if n.endswith(".json"):
            m = json.load(open(p))
            props = m["property"] if isinstance(m["property"], list) else [m["property"]]
            items.append((n, p, props, m["what"]))
        elif n.endswith(".diff"):
            h = n[len("revert_") : -len(".diff")]
            prop, what = fm.get(h, (None, "revert of " + h))
            extra = json.load(open(os.path.join(d, "REVERT_PROPS.json"))) if os.path.exists(os.path.join(d, "REVERT_PROPS.json")) else {}
            props = extra.get(h) or ([prop] if prop else [])
            items.append((n, p, props, "revert of fix " + h + ": " + what))
    sd = os.path.join(ROOT, "seeded")
    if os.path.isdir(sd):
        for n in sorted(os.listdir(sd)):
            p = os.path.join(sd, n, "patch.diff")
            meta = os.path.join(sd, n, "meta.json")
            if os.path.exists(p) and os.path.exists(meta) and (not only or only in n):
                m = json.load(open(meta))
                props = m.get("detected_by") or [m["property"]]
                items.append(("seeded/" + n, p, props, m.get("what", "")))
    return items


def run_one(item, seeds):
    name, path, props, what = item
    rows = []
    for prop in props:
        for seed in seeds:
            env = dict(os.environ, VERIF_SEED=str(seed))
            t0 = time.time()
            r = subprocess.run([os.path.join(ROOT, "tools", "try_mutant.py"), path, prop], env=env, capture_output=True, text=True, cwd=ROOT)
            out = (r.stdout + r.stderr).strip().split("\n")
            line = next((l for l in out if " rc=" in l), out[-1] if out else "")
            m = re.search(r"rc=(\d+)", line)
            rc = int(m.group(1)) if m else -1
            if "MUTANT-FAILED" in (r.stdout + r.stderr):
                rc = -2
            kind = line.split("|", 1)[1].strip()[:110] if "|" in line else ""
            rows.append((prop, seed, rc, time.time() - t0, kind))
    return name, what, rows


def main():
    ap = argparse.ArgumentParser()
    ap.add_argument("--only", default="")
    ap.add_argument("--seeds", default="1")
    ap.add_argument("--jobs", type=int, default=4)
    a = ap.parse_args()
    seeds = [int(s) for s in a.seeds.split(",")]
    items = mutants(a.only)
    results = []
    with cf.ThreadPoolExecutor(a.jobs) as ex:
        for name, what, rows in ex.map(lambda it: run_one(it, seeds), items):
            results.append((name, what, rows))
            print(name, [(p, s, rc, f"{t:.0f}s") for p, s, rc, t, _ in rows], flush=True)
    lines = [
        "# Sensitivity self-test",
        "",
        "Each change below compiles and passes the repository's own test suite (the reverts are the pre-fix code).",
        "`detected` = the quick check of the named property exits 1 with a VIOLATION line when run against a scratch",
        "copy of /repo with the change applied (`tools/try_mutant.py`).  Regenerate with `tools/selftest.py`.",
        "",
        "| change | property | seed | result | time | first violation |",
        "|---|---|---|---|---|---|",
    ]
    missed = 0
    for name, what, rows in sorted(results):
        for prop, seed, rc, t, kind in rows:
            res = {1: "detected", 0: "MISSED", 2: "harness error", -2: "does not apply (superseded)"}.get(rc, f"rc={rc}")
            if rc == 0:
                missed += 1
            lines.append(f"| `{name}` - {what[:140]} | {prop} | {seed} | {res} | {t:.0f}s | {kind.replace('|', '/')} |")
    lines += ["", f"{sum(len(r) for _, _, r in results)} runs, {missed} missed."]
    if not a.only:
        open(os.path.join(ROOT, "SENSITIVITY.md"), "w").write("\n".join(lines) + "\n")
    print("\n".join(lines[-3:]))


main()
